#!/bin/bash
# re-run every quick check against each kept seeded change (applied to /repo, undone afterwards); updates meta.json
cd /verif
for d in seeded/*/; do
  ID=$(basename $d)
  git -C /repo apply /verif/seeded/$ID/patch.diff || { echo "$ID: patch does not apply"; continue; }
  CAUGHT=""; DETAIL=""
  for p in C01 C02 C03 C04 C05 C06 C07 C08 C09 C10 C11 C12 C13 C14 C15 C16 C17 C18 C19 C20; do
    GTSA_SELFTEST=1 python3 check.py --property $p --tier quick > /tmp/w/seed_$p.log 2>&1; rc=$?
    if [ $rc -eq 1 ]; then CAUGHT="$CAUGHT $p"; DETAIL="$DETAIL
$p: $(grep -m1 '^REFUTED' /tmp/w/seed_$p.log | cut -c1-400)"; fi
    if [ $rc -eq 2 ]; then DETAIL="$DETAIL
$p: exit 2 $(grep -m1 '^ANALYSIS' /tmp/w/seed_$p.log | cut -c1-300)"; fi
  done
  git -C /repo checkout -- .; rm -rf /repo/_gtsa_out
  python3 - "$ID" "$CAUGHT" "$DETAIL" <<'PY'
import json,sys
ID,caught,detail=sys.argv[1:4]
p=f"/verif/seeded/{ID}/meta.json"
m=json.load(open(p))
m["checks_that_report_a_violation"]=caught.split(); m["check_reports"]=detail.strip().splitlines()
json.dump(m,open(p,"w"),indent=1)
print(ID, "->", caught)
PY
done
git -C /repo status --short

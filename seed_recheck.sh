#!/bin/bash
# Re-run every quick check against each kept seeded change and update seeded/<id>/meta.json.
# Works on a scratch worktree of /repo HEAD (GTSA_REPO) and on a snapshot of the checker code, so neither /repo nor the
# checker being edited is disturbed; the 20 checks of one seed run in parallel.  (The per-seed confirmation in
# seed_eval.sh applies the patch to /repo itself, as the registered commands read /repo.)
cd /verif
W=$(mktemp -d /tmp/gtsa_recheck_XXXX)
git -C /repo worktree add -q --detach $W/wt HEAD
mkdir -p $W/code; cp -r /verif/gtsa /verif/check.py /verif/known_findings.json $W/code/
for d in seeded/*/; do
  ID=$(basename $d)
  git -C $W/wt apply /verif/seeded/$ID/patch.diff || { echo "$ID: patch does not apply"; continue; }
  for p in C01 C02 C03 C04 C05 C06 C07 C08 C09 C10 C11 C12 C13 C14 C15 C16 C17 C18 C19 C20; do
    ( GTSA_REPO=$W/wt GTSA_SELFTEST=1 python3 $W/code/check.py --property $p --tier quick > $W/$p.log 2>&1; echo $? > $W/$p.rc ) &
  done
  wait
  CAUGHT=""; DETAIL=""
  for p in C01 C02 C03 C04 C05 C06 C07 C08 C09 C10 C11 C12 C13 C14 C15 C16 C17 C18 C19 C20; do
    rc=$(cat $W/$p.rc)
    if [ $rc -eq 1 ]; then CAUGHT="$CAUGHT $p"; DETAIL="$DETAIL
$p: $(grep -m1 '^REFUTED' $W/$p.log | cut -c1-400)"; fi
    if [ $rc -eq 2 ]; then DETAIL="$DETAIL
$p: exit 2 $(grep -m1 '^ANALYSIS' $W/$p.log | cut -c1-300)"; fi
  done
  git -C $W/wt checkout -- .; rm -rf $W/wt/_gtsa_out
  python3 - "$ID" "$CAUGHT" "$DETAIL" <<'PY'
import json,sys
ID,caught,detail=sys.argv[1:4]
p=f"/verif/seeded/{ID}/meta.json"
m=json.load(open(p))
m["checks_that_report_a_violation"]=caught.split(); m["check_reports"]=detail.strip().splitlines()
json.dump(m,open(p,"w"),indent=1)
print(ID, "->", caught)
PY
done
git -C /repo worktree remove --force $W/wt; rm -rf $W

"""Checker self-test, both ways (DESIGN.md section 7): single-site edits of /repo applied to scratch copies.

firing  : the edit breaks the property; the property's quick check must exit 1 and name the edited function.
silent  : the edit preserves behaviour; every listed property's quick check must still exit 0.

Edits are (file, old text, new text); the old text must occur exactly once in the *current* /repo source (otherwise the
mutant is reported as stale - a checker maintenance signal, exit 2, never a violation of the repository).
Scratch copies live under a fresh mkdtemp and are removed afterwards.
"""
import ast
import os
import shutil
import subprocess
import sys
import tempfile
from concurrent.futures import ThreadPoolExecutor

VERIF = os.path.dirname(os.path.dirname(os.path.abspath(__file__)))
F, M, P, C, A, T, DC = ("factor.py", "measure.py", "pdf.py", "conditional.py", "approximate_conditional.py",
                        "experimental/truncated_measure.py", "utils/dataclass.py")
X = "experimental/misc.py"

# (id, kind, properties, file, function expected in the report (firing), old, new)
MUTANTS = [
    # ---------------- C01 / C04 / C12 / C15 : products
    ("m01-linear-multiply-tile-axis", "firing", ["C01", "C12"], F, "LinearFactor._multiply_with_measure",
     "        Lambda_new = jnp.tile(measure.Lambda[:, None], (1, self.R, 1, 1)).reshape(\n            measure.R * self.R, self.D, self.D\n        )\n        nu_new = (measure.nu[:, None] + self.nu[None]).reshape(",
     "        Lambda_new = jnp.tile(measure.Lambda[None], (self.R, 1, 1, 1)).reshape(\n            measure.R * self.R, self.D, self.D\n        )\n        nu_new = (measure.nu[:, None] + self.nu[None]).reshape("),
    ("m02-onerank-lnbeta-outer-order", "firing", ["C01"], F, "OneRankFactor._multiply_with_measure",
     "(measure.ln_beta[:, None] + self.ln_beta[None]), (measure.R * self.R)\n        )\n        new_density_dict = {\"Lambda\": Lambda_new, \"nu\": nu_new, \"ln_beta\": ln_beta_new}\n        if update_full:\n            if measure.Sigma is None:",
     "(measure.ln_beta[None] + self.ln_beta[:, None]), (measure.R * self.R)\n        )\n        new_density_dict = {\"Lambda\": Lambda_new, \"nu\": nu_new, \"ln_beta\": ln_beta_new}\n        if update_full:\n            if measure.Sigma is None:"),
    ("m03-hadamard-mutates-operand", "firing", ["C01", "C04"], F, "ConjugateFactor._hadamard_with_measure",
     "        Lambda_new = measure.Lambda + self.Lambda\n        nu_new = measure.nu + self.nu\n        ln_beta_new = measure.ln_beta + self.ln_beta\n        new_density_dict = {\"Lambda\": Lambda_new, \"nu\": nu_new, \"ln_beta\": ln_beta_new}\n        if update_full:\n            Sigma_new",
     "        Lambda_new = measure.Lambda + self.Lambda\n        nu_new = measure.nu + self.nu\n        measure.nu = nu_new\n        ln_beta_new = measure.ln_beta + self.ln_beta\n        new_density_dict = {\"Lambda\": Lambda_new, \"nu\": nu_new, \"ln_beta\": ln_beta_new}\n        if update_full:\n            Sigma_new"),
    ("m04-constant-hadamard-drops-lnbeta", "firing", ["C01", "C15"], F, "ConstantFactor._hadamard_with_measure",
     "        nu_new = measure.nu + self.nu\n        ln_beta_new = measure.ln_beta + self.ln_beta\n        new_density_dict = {\"Lambda\": Lambda_new, \"nu\": nu_new, \"ln_beta\": ln_beta_new}\n        if update_full:\n            if measure.Sigma is None:\n                Sigma_new, ln_det_Lambda_new = linalg.invert_matrix(Lambda_new)\n                ln_det_Sigma_new = -ln_det_Lambda_new\n            else:\n                reps = Lambda_new.shape[0] // measure.R\n                Sigma_new = jnp.tile(measure.Sigma, (reps, 1, 1))\n                ln_det_Sigma_new = jnp.tile(measure.ln_det_Sigma, (reps,))\n                ln_det_Lambda_new = -ln_det_Sigma_new\n            new_density_dict.update(\n                {\n                    \"Sigma\": Sigma_new,\n                    \"ln_det_Lambda\": ln_det_Lambda_new,\n                    \"ln_det_Sigma\": ln_det_Sigma_new,\n                }\n            )\n        return new_density_dict\n\n    def to_dict(self) -> Dict:\n        \"\"\"Write Factor into dict.\n\n        Returns:\n            Dictionary with relevant parameters.\n        \"\"\"\n        factor_dict = {\"ln_beta\": self.ln_beta, \"num_dim\": self.D}",
     "        nu_new = measure.nu + self.nu\n        ln_beta_new = measure.ln_beta + 0.0 * self.ln_beta\n        new_density_dict = {\"Lambda\": Lambda_new, \"nu\": nu_new, \"ln_beta\": ln_beta_new}\n        if update_full:\n            if measure.Sigma is None:\n                Sigma_new, ln_det_Lambda_new = linalg.invert_matrix(Lambda_new)\n                ln_det_Sigma_new = -ln_det_Lambda_new\n            else:\n                reps = Lambda_new.shape[0] // measure.R\n                Sigma_new = jnp.tile(measure.Sigma, (reps, 1, 1))\n                ln_det_Sigma_new = jnp.tile(measure.ln_det_Sigma, (reps,))\n                ln_det_Lambda_new = -ln_det_Sigma_new\n            new_density_dict.update(\n                {\n                    \"Sigma\": Sigma_new,\n                    \"ln_det_Lambda\": ln_det_Lambda_new,\n                    \"ln_det_Sigma\": ln_det_Sigma_new,\n                }\n            )\n        return new_density_dict\n\n    def to_dict(self) -> Dict:\n        \"\"\"Write Factor into dict.\n\n        Returns:\n            Dictionary with relevant parameters.\n        \"\"\"\n        factor_dict = {\"ln_beta\": self.ln_beta, \"num_dim\": self.D}"),
    ("m05-det-lemma-sign", "firing", ["C04"], F, "OneRankFactor._multiply_with_measure",
     "ln_det_Sigma_new = measure.ln_det_Sigma[:, None] - jnp.log(denominator)", "ln_det_Sigma_new = measure.ln_det_Sigma[:, None] + jnp.log(denominator)"),
    ("m06-sherman-morrison-denominator", "firing", ["C04", "C15"], F, "OneRankFactor._hadamard_with_measure",
     "denominator = 1.0 + self.g * v_Sigma_v", "denominator = 1.0 - self.g * v_Sigma_v"),
    ("m07-evaluate-ln-transposed-x", "firing", ["C01"], F, "ConjugateFactor.evaluate_ln",
     "            x_nu = jnp.dot(x, self.nu.T).T\n            return -0.5 * x_Lambda_x + x_nu + self.ln_beta[:, None]",
     "            x_nu = jnp.dot(x, self.nu.T).T\n            return -0.5 * x_Lambda_x - x_nu + self.ln_beta[:, None]"),
    # ---------------- C02
    ("m10-lnZ-uses-lndet-lambda", "firing", ["C02", "C04"], M, "GaussianMeasure.compute_lnZ",
     "nu_Lambda_nu + self.D * jnp.log(2.0 * jnp.pi) + self.ln_det_Sigma", "nu_Lambda_nu + self.D * jnp.log(2.0 * jnp.pi) + self.ln_det_Lambda"),
    ("m11-get-density-wrong-lndet", "firing", ["C02", "C04"], M, "GaussianMeasure.get_density",
     "            ln_det_Sigma=self.ln_det_Sigma,\n        )", "            ln_det_Sigma=self.ln_det_Lambda,\n        )"),
    ("m12-pdf-ctor-nu-transposed-lambda-is-fine", "silent", ["C02", "C04"], P, "",
     "        self.nu = jnp.einsum(\"abc,ab->ac\", self.Lambda, self.mu)\n        self._prepare_integration()\n        self.normalize()\n\n    def __str__", "        self.nu = jnp.einsum(\"acb,ab->ac\", self.Lambda, self.mu)\n        self._prepare_integration()\n        self.normalize()\n\n    def __str__"),
    ("m13-linalg-logdet-factor", "firing", ["C02"], "utils/linalg.py", "invert_matrix",
     "ln_det_A = 2.0 * jnp.sum(jnp.log(L[0].diagonal(axis1=-1, axis2=-2)), axis=1)", "ln_det_A = jnp.sum(jnp.log(L[0].diagonal(axis1=-1, axis2=-2)), axis=1)"),
    # ---------------- C03
    ("m20-quartic-outer-sign", "firing", ["C03"], M, "_expectation_general_quartic_outer",
     "third_term = BmubCmuc[:, None, None] * (ASigmaD - AmuaDmud)", "third_term = BmubCmuc[:, None, None] * (ASigmaD + AmuaDmud)"),
    ("m21-cubic-inner-wrong-operand", "firing", ["C03"], M, "_expectation_general_cubic_inner",
     "BCm_c = jnp.einsum(\"cab,ca->cb\", B_mat, Cmu_c)", "BCm_c = jnp.einsum(\"cab,ca->cb\", C_mat, Cmu_c)"),
    ("m22-quadratic-outer-transposed", "firing", ["C03"], M, "_expectation_general_quadratic_outer",
     "Axb = jnp.einsum(\"ab,ac->abc\", jnp.einsum(\"cab,cb->ca\", A_mat, self.mu), b_vec)", "Axb = jnp.einsum(\"ab,ac->acb\", jnp.einsum(\"cab,cb->ca\", A_mat, self.mu), b_vec)"),
    ("m23-get-default-tiles-wrong", "firing", ["C03"], M, "GaussianMeasure._get_default",
     "            vec = jnp.zeros(mat.shape[-2])", "            vec = jnp.ones(mat.shape[-2])"),
    ("m24-xbxx-dropped-term", "firing", ["C03"], M, "_expectation_xbxx",
     "        return mbExx + bmSigma + Sigmabm", "        return mbExx + bmSigma"),
    ("m25-einsum-letters-renamed", "silent", ["C03", "C14"], M, "",
     "        AB = jnp.einsum(\"abc,abd->acd\", A_mat, B_mat)\n        ABSigma_trace", "        AB = jnp.einsum(\"xyz,xyw->xzw\", A_mat, B_mat)\n        ABSigma_trace"),
    ("m26-symmetric-operand-swapped", "silent", ["C03", "C02", "C04"], M, "",
     "        self.mu = jnp.einsum(\"abc,ac->ab\", self.Sigma, self.nu)", "        self.mu = jnp.einsum(\"acb,ac->ab\", self.Sigma, self.nu)"),
    # ---------------- C05 / C06
    ("m30-marginal-mean-not-selected", "firing", ["C05"], P, "GaussianPDF.get_marginal",
     "        idx = jnp.ix_(jnp.arange(self.mu.shape[0]), dim_x)\n        mu_new = self.mu[idx]", "        idx = jnp.ix_(jnp.arange(self.mu.shape[0]), jnp.arange(dim_x.shape[0]))\n        mu_new = self.mu[idx]"),
    ("m31-linear-sum-missing-transpose", "firing", ["C05"], P, "GaussianPDF.get_density_of_linear_sum",
     "Sigma_sum = jnp.einsum(\"abc,acd,aed->abe\", W, self.Sigma, W)", "Sigma_sum = jnp.einsum(\"abc,acd,ade->abe\", W, self.Sigma, W)"),
    ("m32-linear-sum-helper-extracted", "silent", ["C05"], P, "",
     "        Sigma_sum = jnp.einsum(\"abc,acd,aed->abe\", W, self.Sigma, W)", "        WS = jnp.einsum(\"abc,acd->abd\", W, self.Sigma)\n        Sigma_sum = jnp.einsum(\"abd,aed->abe\", WS, W)"),
    ("m33-condition-on-sign", "firing", ["C06", "C11"], P, "GaussianPDF.condition_on",
     "        M_x = -jnp.einsum(\"abc,acd->abd\", Sigma_x, self.Lambda[:, dim_x][:, :, dim_y])\n        b_x = self.mu[:, dim_x] - jnp.einsum(\"abc,ac->ab\", M_x, self.mu[:, dim_y])\n        return conditional.ConditionalGaussianPDF(\n            M=M_x, b=b_x, Sigma=Sigma_x, Lambda=Lambda_x, ln_det_Sigma=-ln_det_Lambda_x\n        )\n\n    def condition_on_explicit",
     "        M_x = jnp.einsum(\"abc,acd->abd\", Sigma_x, self.Lambda[:, dim_x][:, :, dim_y])\n        b_x = self.mu[:, dim_x] - jnp.einsum(\"abc,ac->ab\", M_x, self.mu[:, dim_y])\n        return conditional.ConditionalGaussianPDF(\n            M=M_x, b=b_x, Sigma=Sigma_x, Lambda=Lambda_x, ln_det_Sigma=-ln_det_Lambda_x\n        )\n\n    def condition_on_explicit"),
    ("m34-condition-on-x-layout", "firing", ["C06", "C12"], C, "ConditionalGaussianPDF.condition_on_x",
     "        Sigma_new = jnp.tile(self.Sigma[:, None], (1, N, 1, 1)).reshape(\n            self.R * N, self.Dy, self.Dy\n        )\n        Lambda_new = jnp.tile(self.Lambda[:, None], (1, N, 1, 1)).reshape(\n            self.R * N, self.Dy, self.Dy\n        )\n        ln_det_Sigma_new = jnp.tile(self.ln_det_Sigma[:, None], (1, N)).reshape(\n            self.R * N\n        )\n        return pdf.GaussianPDF(\n            Sigma=Sigma_new,\n            mu=mu_new,\n            Lambda=Lambda_new,\n            ln_det_Sigma=ln_det_Sigma_new,\n        )\n\n    def set_y(self, y: Float[Array, \"N Dy\"]",
     "        Sigma_new = jnp.tile(self.Sigma[None], (N, 1, 1, 1)).reshape(\n            self.R * N, self.Dy, self.Dy\n        )\n        Lambda_new = jnp.tile(self.Lambda[:, None], (1, N, 1, 1)).reshape(\n            self.R * N, self.Dy, self.Dy\n        )\n        ln_det_Sigma_new = jnp.tile(self.ln_det_Sigma[:, None], (1, N)).reshape(\n            self.R * N\n        )\n        return pdf.GaussianPDF(\n            Sigma=Sigma_new,\n            mu=mu_new,\n            Lambda=Lambda_new,\n            ln_det_Sigma=ln_det_Sigma_new,\n        )\n\n    def set_y(self, y: Float[Array, \"N Dy\"]"),
    # ---------------- C07 / C08 / C09
    ("m40-joint-precision-block-sign", "firing", ["C07", "C02", "C04"], C, "ConditionalGaussianPDF.affine_joint_transformation",
     "        L_xy = jnp.tile(-Lambda_yM[:, None], (1, p_x.R, 1, 1)).reshape(", "        L_xy = jnp.tile(Lambda_yM[:, None], (1, p_x.R, 1, 1)).reshape("),
    ("m41-joint-lndet-tile-last-axis", "firing", ["C07", "C02"], C, "ConditionalGaussianPDF.affine_joint_transformation",
     "            LSigmaL = jnp.tile(LSigmaL[:, None], (1, p_x.R, 1, 1)).reshape(\n                (R, p_x.D, p_x.D)\n            )", "            LSigmaL = jnp.tile(LSigmaL[:, None], (1, p_x.R)).reshape(\n                (R, p_x.D, p_x.D)\n            )"),
    ("m42-joint-y-first", "firing", ["C07"], C, "ConditionalGaussianPDF.affine_joint_transformation",
     "        mu_xy = jnp.hstack([mu_x, mu_y])\n        # Sigma\n        Sigma_x = jnp.tile(p_x.Sigma[None], (self.R, 1, 1, 1)).reshape(R, p_x.D, p_x.D)\n        MSigma_x", "        mu_xy = jnp.hstack([mu_y, mu_x])\n        # Sigma\n        Sigma_x = jnp.tile(p_x.Sigma[None], (self.R, 1, 1, 1)).reshape(R, p_x.D, p_x.D)\n        MSigma_x"),
    ("m43-marginal-drops-noise", "firing", ["C08", "C13"], C, "ConditionalGaussianPDF.affine_marginal_transformation",
     "        MSigmaM = jnp.einsum(\"abcd,aed->abce\", MSigma_x, self.M)\n        Sigma_y = (self.Sigma[:, None] + MSigmaM).reshape((R, self.Dy, self.Dy))\n        return pdf.GaussianPDF(Sigma=Sigma_y, mu=mu_y)",
     "        MSigmaM = jnp.einsum(\"abcd,aed->abce\", MSigma_x, self.M)\n        Sigma_y = (0.5 * self.Sigma[:, None] + MSigmaM).reshape((R, self.Dy, self.Dy))\n        return pdf.GaussianPDF(Sigma=Sigma_y, mu=mu_y)"),
    ("m44-identity-marginal-forgets-prior", "firing", ["C08", "C15"], C, "ConditionalIdentityGaussianPDF.affine_marginal_transformation",
     "        Sigma_y = (self.Sigma[:, None] + p_x.Sigma[:, None]).reshape(", "        Sigma_y = (self.Sigma[:, None] + 0. * p_x.Sigma[:, None]).reshape("),
    ("m45-posterior-offset-pairs-wrong-batch", "firing", ["C09", "C11"], C, "ConditionalGaussianPDF.affine_conditional_transformation",
     "        b_x = -jnp.einsum(\"abcd,ad->abc\", M_x, self.b)", "        b_x = jnp.einsum(\"abcd,ad->abc\", M_x, self.b)"),
    ("m46-posterior-uses-prior-mean-not-nu", "firing", ["C09"], C, "ConditionalGaussianPDF.affine_conditional_transformation",
     "        b_x += jnp.einsum(\n            \"abcd,bd->abc\", Sigma_x.reshape((self.R, p_x.R, p_x.D, p_x.D)), p_x.nu\n        )",
     "        b_x += jnp.einsum(\n            \"abcd,bd->abc\", Sigma_x.reshape((self.R, p_x.R, p_x.D, p_x.D)), p_x.mu\n        )"),
    # ---------------- C10
    ("m50-set-y-nu-missing-offset", "firing", ["C10", "C11"], C, "ConditionalGaussianPDF.set_y",
     "            jnp.einsum(\"abc, acd -> abd\", self.Lambda, self.M),\n            y_minus_b,\n        )", "            jnp.einsum(\"abc, acd -> abd\", self.Lambda, self.M),\n            y,\n        )"),
    ("m51-set-y-identity-no-tile", "firing", ["C10"], C, "ConditionalIdentityGaussianPDF.set_y",
     "        y_Lambda_y = jnp.einsum(\n            \"ab, ab-> a\",\n            jnp.einsum(\"ab, abc -> ac\", y, self.Lambda),\n            y,\n        )\n        ln_beta_new = -0.5 * (\n            y_Lambda_y + self.Dx * jnp.log(2 * jnp.pi) + self.ln_det_Sigma\n        )\n        Lambda_new = self.Lambda\n        if self.R == 1:\n            Lambda_new = jnp.tile(Lambda_new, (y.shape[0], 1, 1))",
     "        y_Lambda_y = jnp.einsum(\n            \"ab, ab-> a\",\n            jnp.einsum(\"ab, abc -> ac\", y, self.Lambda),\n            y,\n        )\n        ln_beta_new = -0.5 * (\n            y_Lambda_y + self.Dx * jnp.log(2 * jnp.pi) + self.ln_det_Sigma\n        )\n        Lambda_new = self.Lambda"),
    ("m52-set-y-neg-rewrite", "silent", ["C10", "C11"], C, "",
     "        y_minus_b = y - self.b\n        Lambda_new = jnp.einsum(", "        y_minus_b = -(self.b - y)\n        Lambda_new = jnp.einsum("),
    # ---------------- C12
    ("m60-slice-forgets-nu", "firing", ["C12"], F, "ConjugateFactor.slice",
     "        nu_new = jnp.take(self.nu, indices, axis=0)\n        ln_beta_new = jnp.take(self.ln_beta, indices, axis=0)\n        return ConjugateFactor(", "        nu_new = self.nu\n        ln_beta_new = jnp.take(self.ln_beta, indices, axis=0)\n        return ConjugateFactor("),
    ("m61-update-drops-nu", "firing", ["C12"], P, "GaussianPDF.update",
     "        self.nu = self.nu.at[indices].set(density.nu)\n        self.ln_beta = self.ln_beta.at[indices].set(density.ln_beta)\n\n    def get_marginal(self, dim_x", "        self.ln_beta = self.ln_beta.at[indices].set(density.ln_beta)\n\n    def get_marginal(self, dim_x"),
    ("m62-conditional-mean-pins-component", "firing", ["C12", "C06"], C, "ConditionalGaussianPDF.get_conditional_mu",
     "mu_y = jnp.einsum(\"abc,dc->adb\", self.M, x) + self.b[:, None]", "mu_y = jnp.einsum(\"abc,dc->adb\", self.M, x) + self.b[0][None, None]"),
    ("m63-kl-mixes-components", "firing", ["C12", "C13"], P, "GaussianPDF.kl_divergence",
     "            - self.D\n            + p1.ln_det_Sigma", "            - self.D\n            + jnp.sum(p1.ln_det_Sigma) / p1.R"),
    # ---------------- C13
    ("m70-entropy-dimension", "firing", ["C13"], P, "GaussianPDF.entropy",
     "entropy = 0.5 * (self.D * (1.0 + jnp.log(2 * jnp.pi)) + self.ln_det_Sigma)", "entropy = 0.5 * (self.D * (1.0 + jnp.log(2 * jnp.pi)) - self.ln_det_Sigma)"),
    ("m71-mutual-information-sign", "firing", ["C13"], C, "ConditionalGaussianPDF.mutual_information",
     "        mutual_info = p_y.entropy() - cond_entropy\n        return mutual_info\n\n    def update_Sigma(self, Sigma_new: Float[Array, \"R Dy Dy\"]):\n        \"\"\"Updates the covariance matrix :math:`\\Sigma`.\n\n        Args:\n            Sigma_new: The new covariance matrix\n",
     "        mutual_info = cond_entropy - p_y.entropy()\n        return mutual_info\n\n    def update_Sigma(self, Sigma_new: Float[Array, \"R Dy Dy\"]):\n        \"\"\"Updates the covariance matrix :math:`\\Sigma`.\n\n        Args:\n            Sigma_new: The new covariance matrix\n"),
    ("m72-kl-einsum-to-sum", "silent", ["C13", "C12"], P, "",
     "        dmu_Sigma_dmu = jnp.einsum(\n            \"ab,ab->a\", jnp.einsum(\"ab,abc->ac\", dmu, p1.Lambda), dmu\n        )", "        dmu_Sigma_dmu = jnp.sum(jnp.einsum(\"ab,abc->ac\", dmu, p1.Lambda) * dmu, axis=1)"),
    # ---------------- C14
    ("m80-log-conditional-sign-of-M", "firing", ["C14"], C, "ConditionalGaussianPDF.integrate_log_conditional",
     "        A = A.at[:, :, self.Dy :].set(-self.M)\n        b = -self.b\n        A_tilde = jnp.einsum(\"abc,acd->abd\", self.Lambda, A)\n        b_tilde = jnp.einsum(\"abc,ac->ab\", self.Lambda, b)\n        quadratic_integral = p_yx.integrate(",
     "        A = A.at[:, :, self.Dy :].set(self.M)\n        b = -self.b\n        A_tilde = jnp.einsum(\"abc,acd->abd\", self.Lambda, A)\n        b_tilde = jnp.einsum(\"abc,ac->ab\", self.Lambda, b)\n        quadratic_integral = p_yx.integrate("),
    ("m81-log-factor-drops-mass", "firing", ["C14"], F, "ConjugateFactor._integrate_log_factor",
     "-0.5 * quadratic_integral + linear_integral + self.ln_beta * int_phi", "-0.5 * quadratic_integral + linear_integral + self.ln_beta"),
    ("m82-log-conditional-y-dimension", "firing", ["C14"], C, "ConditionalIdentityGaussianPDF.integrate_log_conditional_y",
     "        A = jnp.tile(jnp.eye(self.Dy)[None], (self.R, 1, 1))\n        A_tilde = self.Lambda\n        quadratic_integral = p_x.integrate(\"(Ax+a)'(Bx+b)\", A_mat=A, B_mat=A_tilde)\n        linear_integral = p_x.integrate(\"(Ax+a)\", A_mat=A_tilde)\n        log_expectation_constant = -0.5 * (\n            quadratic_integral + (self.ln_det_Sigma + self.Dy * jnp.log(2.0 * jnp.pi))\n        )\n        log_expectation_y = (\n            lambda y: -0.5\n            * jnp.einsum(\"ab,ab -> a\", y, jnp.einsum(\"abc,ac->ab\", self.Lambda, y))\n            + jnp.einsum(\"ab,ab->a\", y, linear_integral)\n            + log_expectation_constant\n        )\n        if y == None:\n            return log_expectation_y\n        else:\n            return log_expectation_y(y)\n\n    def conditional_entropy",
     "        A = jnp.tile(jnp.eye(self.Dy)[None], (self.R, 1, 1))\n        A_tilde = self.Lambda\n        quadratic_integral = p_x.integrate(\"(Ax+a)'(Bx+b)\", A_mat=A, B_mat=A_tilde)\n        linear_integral = p_x.integrate(\"(Ax+a)\", A_mat=A_tilde)\n        log_expectation_constant = -0.5 * (\n            quadratic_integral + (self.ln_det_Sigma + self.Dy * jnp.log(2.0 * jnp.pi))\n        )\n        log_expectation_y = (\n            lambda y: -0.5\n            * jnp.einsum(\"ab,ab -> a\", y, jnp.einsum(\"abc,ac->ab\", self.Lambda, y))\n            + 2.0 * jnp.einsum(\"ab,ab->a\", y, linear_integral)\n            + log_expectation_constant\n        )\n        if y == None:\n            return log_expectation_y\n        else:\n            return log_expectation_y(y)\n\n    def conditional_entropy"),
    # ---------------- C15
    ("m90-nn-lambda-is-sigma", "firing", ["C15"], C, "NNControlGaussianConditional.set_control_variable",
     "            Lambda=jnp.tile(self.Lambda, tile_dims),", "            Lambda=jnp.tile(self.Sigma, tile_dims),"),
    ("m91-nn-b-offset-shifted", "firing", ["C15"], C, "NNControlGaussianConditional.get_M_b",
     "        b = output[:, self.Dy * self.Dx :]", "        b = output[:, self.Dy * self.Dx - 1 : -1]"),
    # ---------------- C16
    ("m100-feature-cross-terms-swapped", "firing", ["C16"], A, "LConjugateFactorMGaussianConditional.get_expected_moments",
     "        Eff = jnp.block([[Exx, jnp.swapaxes(Ekx, axis1=1, axis2=2)], [Ekx, Ekk]])", "        Eff = jnp.block([[Exx, 0.5 * jnp.swapaxes(Ekx, axis1=1, axis2=2)], [0.5 * Ekx, Ekk]])"),
    ("m101-rbf-kernel-not-unit-height", "firing", ["C16"], A, "LRBFGaussianConditional.update_phi",
     "        ln_beta = -0.5 * jnp.sum((self.mu / self.length_scale) ** 2, axis=1)", "        ln_beta = -jnp.sum((self.mu / self.length_scale) ** 2, axis=1)"),
    ("m102-hetero-link-offset-column", "firing", ["C16"], A, "HeteroscedasticConditional.linear_layer",
     "        return jnp.einsum(\"ab,cb->ca\", self.W[:,1:], x) + self.W[:,0][None]", "        return jnp.einsum(\"ab,cb->ca\", self.W[:,:-1], x) + self.W[:,-1][None]"),
    ("m103-hetero-expected-noise-sign", "firing", ["C16"], A, "HeteroscedasticCoshM1Conditional._integrate_noise_diagonal",
     "        exp_h_minus = factor.LinearFactor(nu=-nu, ln_beta=-ln_beta - jnp.log(2))", "        exp_h_minus = factor.LinearFactor(nu=-nu, ln_beta=ln_beta - jnp.log(2))"),
    # ---------------- C17
    ("m105-step-logdet-shared-helper", "firing", ["C17"], A, "HeteroscedasticHeavisideConditional.get_lb_log_det",
     "        int_ln1pf_h = jnp.log(2.) * vmap(integrate_f_i, out_axes=0)(w, w0)", "        int_ln1pf_h = jnp.log(2.) * self._integrate_noise_diagonal(p_x)"),
    ("m106-step-logdet-factor", "firing", ["C17"], A, "HeteroscedasticHeavisideConditional.get_lb_log_det",
     "        int_ln1pf_h = jnp.log(2.) * vmap(integrate_f_i, out_axes=0)(w, w0)", "        int_ln1pf_h = jnp.log(2.) * 0.5 * vmap(integrate_f_i, out_axes=0)(w, w0)"),
    ("m107-hetero-conditional-cov-drops-AA", "firing", ["C17", "C16"], A, "HeteroscedasticConditional.get_conditional_cov",
     "        D_x = self.link_function(h) \n        Sigma = self.Sigma + jnp.einsum(", "        D_x = self.link_function(h) \n        Sigma = 2.0 * self.Sigma + jnp.einsum("),
    ("m108-cosh-bound-cross-term", "firing", ["C17"], A, "HeteroscedasticCoshM1Conditional._lower_bound_integrals",
     "        nu_1 =  - 2. * fprime_omega[:,None] * b * w", "        nu_1 =  - fprime_omega[:,None] * b * w"),
    ("m109-class-constant-added", "silent", ["C17", "C16"], A, "",
     "class HeteroscedasticExpConditional(HeteroscedasticConditional):", "class HeteroscedasticExpConditional(HeteroscedasticConditional):\n    _LINK_NAME = \"exp\""),
    # ---------------- C18
    ("m110-removed-jax-api", "firing", ["C18"], DC, "register_dataclass_type_with_jax_tree_util",
     "        items = sorted(d.__dict__.items())\n        static = tuple", "        items = sorted(jax.util.safe_zip(d.__dict__.keys(), d.__dict__.values()))\n        static = tuple"),
    ("m111-array-in-python-if", "firing", ["C18"], P, "GaussianPDF.entropy",
     "        entropy = 0.5 * (self.D * (1.0 + jnp.log(2 * jnp.pi)) + self.ln_det_Sigma)\n        return entropy", "        entropy = 0.5 * (self.D * (1.0 + jnp.log(2 * jnp.pi)) + self.ln_det_Sigma)\n        if jnp.sum(entropy) < 0:\n            entropy = entropy + 0.0\n        return entropy"),
    ("m112-todict-wrong-key", "firing", ["C18"], F, "LinearFactor.to_dict",
     "        factor_dict = {\"nu\": self.nu, \"ln_beta\": self.ln_beta}", "        factor_dict = {\"nu\": self.nu, \"lnbeta\": self.ln_beta}"),
    ("m113-stop-gradient-removed", "firing", ["C18"], A, "HeteroscedasticConditional.get_lb_heteroscedastic_term_i",
     "        omega_star = lax.stop_gradient(self._get_omega_star(p_x=p_x, y=y, W_i=W_i, a_i=a_i))", "        omega_star = self._get_omega_star(p_x=p_x, y=y, W_i=W_i, a_i=a_i)"),
    # ---------------- C19
    ("m120-sample-cholesky-transposed", "firing", ["C19"], P, "GaussianPDF.sample",
     "x_samples = self.mu[None] + jnp.einsum(\"abc,dac->dab\", L, rand_nums)", "x_samples = self.mu[None] + jnp.einsum(\"acb,dac->dab\", L, rand_nums)"),
    ("m121-sample-second-key", "firing", ["C19"], P, "GaussianPDF.sample",
     "        rand_nums = jax.random.normal(key, (num_samples, self.R, self.D))", "        rand_nums = jax.random.normal(jax.random.PRNGKey(0), (num_samples, self.R, self.D))"),
    ("m122-sample-flat-draw-reshaped", "silent", ["C19"], P, "",
     "        rand_nums = jax.random.normal(key, (num_samples, self.R, self.D))", "        rand_nums = jax.random.normal(key, (num_samples, self.R * self.D)).reshape((num_samples, self.R, self.D))"),
    ("m123-sample-shared-stream-vmap", "firing", ["C19"], P, "GaussianPDF.sample",
     "        rand_nums = jax.random.normal(key, (num_samples, self.R, self.D))\n        L = jnp.linalg.cholesky(self.Sigma)\n        x_samples = self.mu[None] + jnp.einsum(\"abc,dac->dab\", L, rand_nums)\n",
     "        L = jnp.linalg.cholesky(self.Sigma)\n\n        def sample_component(mu, L):\n            rand_nums = jax.random.normal(key, (num_samples, self.D))\n            return mu[None] + jnp.einsum(\"bc,dc->db\", L, rand_nums)\n\n        x_samples = jax.vmap(sample_component, out_axes=1)(self.mu, L)\n"),
    # ---------------- sorted / un-sorted index lists (from seeded change C06c)
    ("m124-condition-explicit-sort-wrong-restore", "firing", ["C06"], P, "GaussianPDF.condition_on_explicit",
     "        Lambda_x = self.Lambda[:, dim_x][:, :, dim_x]\n        Sigma_x, ln_det_Lambda_x = invert_matrix(Lambda_x)\n        M_x = -jnp.einsum(\"abc,acd->abd\", Sigma_x, self.Lambda[:, dim_x][:, :, dim_y])\n        b_x = self.mu[:, dim_x] - jnp.einsum(\"abc,ac->ab\", M_x, self.mu[:, dim_y])\n        return conditional.ConditionalGaussianPDF(\n            M=M_x, b=b_x, Sigma=Sigma_x, Lambda=Lambda_x, ln_det_Sigma=-ln_det_Lambda_x\n        )\n        \n    def get_density_of_linear_sum", "        order = jnp.argsort(dim_x)\n        inv = jnp.argsort(order)\n        dim_x = dim_x[order]\n        Lambda_x = self.Lambda[:, dim_x][:, :, dim_x]\n        Sigma_x, ln_det_Lambda_x = invert_matrix(Lambda_x)\n        M_x = -jnp.einsum(\"abc,acd->abd\", Sigma_x, self.Lambda[:, dim_x][:, :, dim_y])\n        b_x = self.mu[:, dim_x] - jnp.einsum(\"abc,ac->ab\", M_x, self.mu[:, dim_y])\n        return conditional.ConditionalGaussianPDF(\n            M=M_x[:, order], b=b_x[:, order], Sigma=Sigma_x[:, order][:, :, order], Lambda=Lambda_x[:, order][:, :, order], ln_det_Sigma=-ln_det_Lambda_x\n        )\n        \n    def get_density_of_linear_sum"),
    ("m125-condition-explicit-sort-inverse-restore", "silent", ["C06", "C04", "C12"], P, "",
     "        Lambda_x = self.Lambda[:, dim_x][:, :, dim_x]\n        Sigma_x, ln_det_Lambda_x = invert_matrix(Lambda_x)\n        M_x = -jnp.einsum(\"abc,acd->abd\", Sigma_x, self.Lambda[:, dim_x][:, :, dim_y])\n        b_x = self.mu[:, dim_x] - jnp.einsum(\"abc,ac->ab\", M_x, self.mu[:, dim_y])\n        return conditional.ConditionalGaussianPDF(\n            M=M_x, b=b_x, Sigma=Sigma_x, Lambda=Lambda_x, ln_det_Sigma=-ln_det_Lambda_x\n        )\n        \n    def get_density_of_linear_sum", "        order = jnp.argsort(dim_x)\n        inv = jnp.argsort(order)\n        dim_x = dim_x[order]\n        Lambda_x = self.Lambda[:, dim_x][:, :, dim_x]\n        Sigma_x, ln_det_Lambda_x = invert_matrix(Lambda_x)\n        M_x = -jnp.einsum(\"abc,acd->abd\", Sigma_x, self.Lambda[:, dim_x][:, :, dim_y])\n        b_x = self.mu[:, dim_x] - jnp.einsum(\"abc,ac->ab\", M_x, self.mu[:, dim_y])\n        return conditional.ConditionalGaussianPDF(\n            M=M_x[:, inv], b=b_x[:, inv], Sigma=Sigma_x[:, inv][:, :, inv], Lambda=Lambda_x[:, inv][:, :, inv], ln_det_Sigma=-ln_det_Lambda_x\n        )\n        \n    def get_density_of_linear_sum"),
    # ---------------- C20
    ("m130-indicator-one-sided", "firing", ["C20"], T, "TruncatedGaussianMeasure.__call__",
     "                jnp.logical_and(\n                    jnp.greater_equal(x[None], self.lower_limit[:, None]),\n                    jnp.less_equal(x[None], self.upper_limit[:, None]),\n                ),", "                jnp.logical_and(\n                    jnp.greater_equal(x[None], self.lower_limit[:, None]),\n                    jnp.greater_equal(x[None], self.lower_limit[:, None]),\n                ),"),
    ("m131-integrate-x2-mass-squared", "firing", ["C20"], T, "TruncatedGaussianMeasure.integrate_x_pow_2",
     "        return (variance + mu**2) * self.integral()[:, None]", "        return (variance + mu**2) * self.integral()[:, None] * self.constant[:, None]"),
    ("m132-pdf-uses-unnormalised-base", "firing", ["C20"], T, "TruncatedGaussianPDF.__post_init__",
     "        self.measure = self.density\n", ""),
    ("m133-moment-recursion-factor", "firing", ["C20"], T, "TruncatedGaussianMeasure._get_moment",
     "            L_new = -(beta_pdf - alpha_pdf) / denominator + (k - 1) * L2", "            L_new = -(beta_pdf - alpha_pdf) / denominator + k * L2"),
    ("m134-moment-recursion-carry-order", "firing", ["C20"], T, "TruncatedGaussianMeasure._get_moment",
     "            return (L1, L_new), L_new", "            return (L_new, L1), L_new"),
    ("m135-moment-order-zero-rows", "firing", ["C20"], T, "TruncatedGaussianMeasure._get_moment",
     "        Ls = jnp.concatenate([L0[None], L1[None], Ls], axis=0)[: order + 1]", "        Ls = jnp.concatenate([L0[None], L1[None], Ls], axis=0)"),
    ("m136-moment-binomial-exponents", "firing", ["C20"], T, "TruncatedGaussianMeasure._get_moment",
     "                * self.density.mu.T ** (order - k_range)\n                * Ls,\n                axis=0,\n            )\n        moments = jnp.where", "                * self.density.mu.T ** k_range\n                * Ls,\n                axis=0,\n            )\n        moments = jnp.where"),
    ("m138-pdf-std-is-variance", "firing", ["C20"], T, "TruncatedGaussianPDF.get_std",
     "        return jnp.sqrt(self.get_variance())", "        return self.get_variance()"),
    ("m139-variance-missing-square", "firing", ["C20"], T, "TruncatedGaussianMeasure._get_variance",
     "            - (normal_pdf(self.alpha) - normal_pdf(self.beta)) ** 2 / Z**2", "            - (normal_pdf(self.alpha) - normal_pdf(self.beta)) ** 2 / Z"),
    ("m137-moment-recursion-rewrite", "silent", ["C20"], T, "",
     "            L_new = -(beta_pdf - alpha_pdf) / denominator + (k - 1) * L2", "            L_new = (alpha_pdf - beta_pdf) / denominator + L2 * (k - 1)"),
    # ---------------- survivors of the mutation sweep (tools_mutsweep.py) that turned out to be holes, and the bodies of the summarised helpers
    ("m142-diag-conditional-lambda-route-sign", "firing", ["C07"], C, "",
     "            self.Sigma, ln_det_Lambda = invert_diagonal(self.Lambda)\n            self.ln_det_Sigma = -ln_det_Lambda\n\n\n@dataclass(kw_only=True)\nclass NNControlGaussianConditional",
     "            self.Sigma, ln_det_Lambda = invert_diagonal(self.Lambda)\n            self.ln_det_Sigma = ln_det_Lambda\n\n\n@dataclass(kw_only=True)\nclass NNControlGaussianConditional"),
    ("m143-relu-kfunc-division", "firing", ["C17"], A, "HeteroscedasticReLUConditional.k_func",
     "        return Zh * c0 + c1 * (Eh - Zh * omega_dagger)", "        return Zh / c0 + c1 * (Eh - Zh * omega_dagger)"),
    ("m144-binom-body", "firing", ["C20"], X, "binom",
     "gammaln(k - i + 1)", "gammaln(k - i + 2)"),
    ("m145-cdf-body-scale", "firing", ["C20", "C16", "C17"], X, "normal_cdf",
     "    y = norm.cdf(x)\n", "    y = 0.5 * norm.cdf(x)\n"),
    ("m146-cdf-guard-rewritten", "silent", ["C20"], X, "",
     "    return jnp.where(y < 1., y, 1. + norm.logcdf(x))", "    return jnp.where(y >= 1., 1. + norm.logcdf(x), y)"),
    # ---------------- slices with non-default index semantics, dropped broadcast (from seeded changes of round 2)
    ("m140-measure-slice-clip-cached", "firing", ["C12", "C04"], M, "GaussianMeasure.slice",
     "        new_measure = GaussianMeasure(Lambda=Lambda_new, nu=nu_new, ln_beta=ln_beta_new)\n        if self.Sigma is not None:\n            new_measure.Sigma = jnp.take(self.Sigma, indices, axis=0)", "        new_measure = GaussianMeasure(Lambda=Lambda_new, nu=nu_new, ln_beta=ln_beta_new)\n        if self.Sigma is not None:\n            new_measure.Sigma = jnp.take(self.Sigma, indices, axis=0, mode=\"clip\")"),
    ("m141-constant-hadamard-no-broadcast", "firing", ["C01", "C12"], F, "ConstantFactor._hadamard_with_measure",
     "        # self.Lambda and self.nu are zero: adding them broadcasts a single-component measure to R components\n        Lambda_new = measure.Lambda + self.Lambda\n        nu_new = measure.nu + self.nu\n", "        # self.Lambda and self.nu are zero: adding them broadcasts a single-component measure to R components\n        Lambda_new = measure.Lambda + self.Lambda\n        nu_new = measure.nu\n"),
]


def corpus_mutants():
    """the seeded changes (firing, for the checks recorded as reporting them) and the behaviour-preserving refactorings of one file per
    property (silent) as additional self-test edits; both are unified diffs applied with patch(1)."""
    import glob
    import json
    out = []
    for f in sorted(glob.glob(os.path.join(VERIF, "seeded", "*", "meta.json"))):
        m = json.load(open(f))
        props = [p for p in m.get("checks_that_report_a_violation", [])]
        if props:
            out.append(("seed-" + m["id"], "firing", props, None, "", "@patch:" + os.path.join(os.path.dirname(f), "patch.diff"), ""))
    return out


def apply_mutant(m, scratch):
    mid, kind, props, fname, func, old, new = m
    src_root = os.path.join(os.environ.get("GTSA_REPO", "/repo"), "gaussian_toolbox")
    dst = os.path.join(scratch, mid)
    shutil.copytree(src_root, os.path.join(dst, "gaussian_toolbox"))
    if old.startswith("@patch:"):
        r = subprocess.run(["patch", "-p1", "-s", "-d", dst, "-i", old[7:]], capture_output=True, text=True)
        if r.returncode != 0:
            return None, f"stale: patch does not apply ({(r.stdout + r.stderr).strip()[:120]})"
        return dst, None
    p = os.path.join(dst, "gaussian_toolbox", fname)
    s = open(p).read()
    if s.count(old) != 1:
        return None, f"stale: pattern occurs {s.count(old)} times in {fname}"
    s2 = s.replace(old, new)
    try:
        import warnings
        with warnings.catch_warnings():
            warnings.simplefilter("ignore")
            ast.parse(s2)
    except SyntaxError as e:
        return None, f"mutant does not parse: {e}"
    open(p, "w").write(s2)
    return dst, None


def run_check(prop, repo):
    env = dict(os.environ, GTSA_REPO=repo, GTSA_SELFTEST="1", GTSA_JOBS="2")
    r = subprocess.run([sys.executable, os.path.join(VERIF, "check.py"), "--property", prop, "--tier", "quick"], capture_output=True, text=True, env=env, timeout=900)
    return r.returncode, r.stdout


def selftest(prop, jobs=8):
    """returns dict(fired, missed, silent_ok, alarmed, stale, details)"""
    rel = [m for m in MUTANTS + corpus_mutants() if prop in m[2]]
    scratch = tempfile.mkdtemp(prefix="gtsa_selftest_")
    out = dict(fired=[], missed=[], silent_ok=[], alarmed=[], stale=[], details={})
    try:
        def one(m):
            mid, kind, props, fname, func, old, new = m
            dst, err = apply_mutant(m, scratch)
            if dst is None:
                return mid, "stale", err
            rc, txt = run_check(prop, dst)
            shutil.rmtree(dst, ignore_errors=True)
            if kind == "firing":
                named = (func.split(".")[-1] in txt) if func else True
                if rc == 1 and "VIOLATION" in txt:
                    return mid, "fired" if named else "fired-unnamed", ""
                return mid, "missed", f"exit {rc}: " + txt.strip().splitlines()[-1][:200] if txt.strip() else f"exit {rc}"
            if rc == 0:
                return mid, "silent_ok", ""
            return mid, "alarmed", f"exit {rc}: " + "\n".join(l for l in txt.splitlines() if l.startswith(("REFUTED", "ANALYSIS")))[:400]
        with ThreadPoolExecutor(max_workers=jobs) as ex:
            for mid, res, info in ex.map(one, rel):
                key = {"fired": "fired", "fired-unnamed": "fired", "missed": "missed", "silent_ok": "silent_ok", "alarmed": "alarmed", "stale": "stale"}[res]
                out[key].append(mid)
                if info or res == "fired-unnamed":
                    out["details"][mid] = (res + ": " + info).strip()
    finally:
        shutil.rmtree(scratch, ignore_errors=True)
    return out


if __name__ == "__main__":
    props = sys.argv[1:] or sorted({p for m in MUTANTS for p in m[2]})
    bad = 0
    for p in props:
        r = selftest(p, jobs=8)
        print(p, {k: v for k, v in r.items() if k != "details"})
        for k, v in r["details"].items():
            print("   ", k, v)
        bad += len(r["missed"]) + len(r["alarmed"]) + len(r["stale"])
    sys.exit(1 if bad else 0)

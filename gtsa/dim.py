"""Polynomial ring Q[symbols] used for array sizes (Dim) and for NF coefficients.

Symbols are rigid (skolem) names: "R", "D", "Dx", "Dy", "K", ... plus the transcendental
constants LOG2PI, LOG2, PI that the library writes as jnp.log(2*jnp.pi) etc.  A symbol always
denotes a value >= 1 (sizes) -- the literal 1 is distinguished by `is_one`.
"""
from fractions import Fraction


class Dim:
    __slots__ = ("t", "_h")

    def __init__(self, t=None):
        self.t = {k: Fraction(v) for k, v in (t or {}).items() if v != 0}
        self._h = None

    @staticmethod
    def const(c):
        return Dim({(): Fraction(c)}) if c else Dim()

    @staticmethod
    def sym(s):
        return Dim({(s,): 1})

    def __add__(s, o):
        o = D(o)
        r = dict(s.t)
        for k, v in o.t.items():
            r[k] = r.get(k, 0) + v
        return Dim(r)

    __radd__ = __add__

    def __neg__(s):
        return Dim({k: -v for k, v in s.t.items()})

    def __sub__(s, o):
        return s + (-D(o))

    def __rsub__(s, o):
        return D(o) - s

    def __mul__(s, o):
        o = D(o)
        r = {}
        for k1, v1 in s.t.items():
            for k2, v2 in o.t.items():
                k = tuple(sorted(k1 + k2))
                r[k] = r.get(k, 0) + v1 * v2
        return Dim(r)

    __rmul__ = __mul__

    def __truediv__(s, o):
        o = D(o)
        if o.is_const() and o.t:
            c = o.t[()]
            return Dim({k: v / c for k, v in s.t.items()})
        # monomial divisor
        if len(o.t) == 1:
            (km, cm), = o.t.items()
            r = {}
            for k, v in s.t.items():
                kk = list(k)
                for sy in km:
                    if sy in kk:
                        kk.remove(sy)
                    else:
                        raise ZeroDivisionError(f"{s} not divisible by {o}")
                r[tuple(kk)] = v / cm
            return Dim(r)
        # exact division by a general polynomial (graded-lex long division); raises when the remainder is not zero
        def lead(t):
            return max(t, key=lambda k: (len(k), k))
        ko = lead(o.t)
        co = o.t[ko]
        rem = Dim(s.t)
        quo = {}
        for _ in range(10000):
            if not rem.t:
                return Dim(quo)
            kr = lead(rem.t)
            kk = list(kr)
            for sy in ko:
                if sy in kk:
                    kk.remove(sy)
                else:
                    raise ZeroDivisionError(f"{s} not divisible by {o}")
            m = Dim({tuple(kk): rem.t[kr] / co})
            quo[tuple(kk)] = quo.get(tuple(kk), 0) + rem.t[kr] / co
            rem = rem - m * o
        raise ZeroDivisionError(f"{s} / {o}")

    def __pow__(s, n):
        if isinstance(n, Dim):
            if not n.is_const():
                raise TypeError("symbolic exponent")
            n = n.value()
        n = int(n)
        r = Dim.const(1)
        for _ in range(n):
            r = r * s
        return r

    def __eq__(s, o):
        try:
            return s.t == D(o).t
        except TypeError:
            return False

    def __ne__(s, o):
        return not s == o

    def __hash__(s):
        if s._h is None:
            s._h = hash(tuple(sorted(s.t.items())))
        return s._h

    def is_zero(s):
        return not s.t

    def is_one(s):
        return s.t == {(): 1}

    def is_const(s):
        return all(k == () for k in s.t)

    def value(s):
        assert s.is_const()
        return s.t.get((), Fraction(0))

    def symbols(s):
        return {x for k in s.t for x in k}

    def nonneg(s):
        """True if every coefficient is >= 0 (then the value is >= 0 for all symbol values >= 0)."""
        return all(v >= 0 for v in s.t.values())

    def subs(s, m):
        r = Dim()
        for k, v in s.t.items():
            term = Dim.const(v)
            for sy in k:
                term = term * D(m.get(sy, Dim.sym(sy)))
            r = r + term
        return r

    def __repr__(s):
        if not s.t:
            return "0"
        out = []
        for k, v in sorted(s.t.items()):
            mon = "*".join(k)
            if not k:
                out.append(str(v))
            elif v == 1:
                out.append(mon)
            elif v == -1:
                out.append("-" + mon)
            else:
                out.append(f"{v}*{mon}")
        return " + ".join(out).replace("+ -", "- ")


def D(x):
    if isinstance(x, Dim):
        return x
    if isinstance(x, bool):
        return Dim.const(int(x))
    if isinstance(x, int):
        return Dim.const(x)
    if isinstance(x, Fraction):
        return Dim.const(x)
    if isinstance(x, float):
        if x != x or x in (float("inf"), float("-inf")):
            raise TypeError("non-finite float as Dim")
        return Dim.const(Fraction(x).limit_denominator(10 ** 12))
    raise TypeError(f"cannot make Dim from {type(x).__name__}")


LOG2PI = Dim.sym("LOG2PI")
LOG2 = Dim.sym("LOG2")
PI = Dim.sym("PI")


def dim_le(a, b):
    """a <= b provable for all symbol values >= 1 (sufficient test)."""
    d = D(b) - D(a)
    if d.nonneg():
        return True
    # substitute s = 1 + s' (s' >= 0) and re-test
    m = {sy: Dim.sym(sy) + 1 for sy in d.symbols()}
    return d.subs(m).nonneg()


def dim_lt(a, b):
    d = D(b) - D(a)
    m = {sy: Dim.sym(sy) + 1 for sy in d.symbols()}
    e = d.subs(m)
    return e.nonneg() and e.t.get((), 0) > 0

"""Reference oracle for polynomial Gaussian moments: Isserlis / Wick expansion generated from the
*documented integrand string* of the integration table (never from the implementation).

  parse_key("(Ax+a)'(Bx+b)(Cx+c)'")  ->  factor list with transposition flags
  chain algebra (column vector = K x 1, transposed = 1 x K) decides which output indices are
  contracted (inner products) and which survive (outer products)
  wick(...) builds  E[ prod_p (M_p x + v_p) ]  for x ~ N(mu, Sigma)  as a sum over even subsets and
  perfect matchings:  prod_{pairs} M_p Sigma M_q'  *  prod_{unpaired} (M_p mu + v_p).
"""
import re
from . import nf
from .nf import Val
from .dim import D


class KeyError_(Exception):
    pass


def parse_key(key):
    """returns list of factors: dict(kind, names, transposed)
       kind: 'affine' (Xx+x), 'x', 'scalar_affine' (X'x + x), 'scalar_bx' (b'x)."""
    s = key.replace(" ", "")
    out = []
    i = 0
    while i < len(s):
        m = re.match(r"\(([A-Z])x\+([a-z])\)('?)", s[i:])
        if m:
            out.append(dict(kind="affine", mat=m.group(1) + "_mat", vec=m.group(2) + "_vec", t=bool(m.group(3))))
            i += m.end()
            continue
        m = re.match(r"\(([A-Z])'x\+([a-z])\)", s[i:])
        if m:
            out.append(dict(kind="scalar_affine", mat=m.group(1) + "_mat", vec=m.group(2) + "_vec", t=False))
            i += m.end()
            continue
        m = re.match(r"([a-z])'x", s[i:])
        if m and m.group(1) != "x":
            out.append(dict(kind="scalar_bx", mat=m.group(1) + "_vec", vec=None, t=False))
            i += m.end()
            continue
        m = re.match(r"x('?)", s[i:])
        if m:
            out.append(dict(kind="x", mat=None, vec=None, t=bool(m.group(1))))
            i += m.end()
            continue
        raise KeyError_(f"cannot parse integrand {key!r} at {s[i:]!r}")
    return out


def chain(factors):
    """assign an output letter to every vector-valued factor and decide contractions.
    returns (letters per factor or None for scalar factors, output letters)"""
    letters = []
    pool = iter("klmnopq")
    run = None      # (row, col) of the running product; None = scalar so far
    uf = {}

    def find(x):
        while uf.get(x, x) != x:
            x = uf[x]
        return x
    for f in factors:
        if f["kind"] in ("scalar_affine", "scalar_bx"):
            letters.append(None)
            continue
        L = next(pool)
        letters.append(L)
        cur = (None, L) if f["t"] else (L, None)
        if run is None:
            run = cur
            continue
        r, c = run
        r2, c2 = cur
        if c is not None and r2 is not None:
            uf[find(r2)] = find(c)       # inner product: contract
            run = (r, c2)
        elif c is None and r2 is None:
            if r is not None and c2 is not None:
                run = (r, c2)            # outer product
            elif r is None:
                run = (r2, c2)
            else:
                run = (r, c)
                if c2 is not None:
                    run = (r, c2)
        else:
            raise KeyError_("integrand is not a well-formed vector/matrix product")
    letters = [None if x is None else find(x) for x in letters]
    outl = []
    if run is not None:
        for x in run:
            if x is not None:
                outl.append(find(x))
    # a letter used by two factors and not in the output is summed; a letter used twice AND in output is invalid
    return letters, outl


def _matchings(items):
    if not items:
        yield []
        return
    a = items[0]
    for k in range(1, len(items)):
        b = items[k]
        rest = items[1:k] + items[k + 1:]
        for m in _matchings(rest):
            yield [(a, b)] + m


def _subsets_even(n):
    from itertools import combinations
    for r in range(0, n + 1, 2):
        for c in combinations(range(n), r):
            yield list(c)


def wick(forms, letters, outl, mu, Sigma):
    """forms: list of (mat, vec): mat Val [B,K,D] (vector form) or [B,D] (scalar form); vec Val [B,K] / [B] / None.
    mu [R,D], Sigma [R,D,D].  Returns Val [R, *out]."""
    n = len(forms)

    def L(p):
        return letters[p] or ""
    means = []
    for p, (mat, vec) in enumerate(forms):
        m = nf.einsum(f"r{L(p)}d,rd->r{L(p)}", mat, mu, what="wick-mean")
        if vec is not None:
            m = nf.add(m, vec, what="wick-mean")
        means.append(m)
    total = None
    for S in _subsets_even(n):
        rest = [p for p in range(n) if p not in S]
        for match in _matchings(S):
            ops = []
            specs = []
            for (p, q) in match:
                # letters inside one operand must be distinct: use private letters and tie them with the
                # global spec through the final einsum (p and q may share a letter when contracted)
                lp, lq = L(p), L(q)
                if lp and lp == lq:
                    c = nf.einsum("rkd,rde,rke->r", forms[p][0], Sigma, forms[q][0], what="wick-cov")
                    specs.append("r")
                else:
                    c = nf.einsum(f"r{lp}d,rde,r{lq}e->r{lp}{lq}", forms[p][0], Sigma, forms[q][0], what="wick-cov")
                    specs.append(f"r{lp}{lq}")
                ops.append(c)
            for p in rest:
                ops.append(means[p])
                specs.append(f"r{L(p)}")
            if not ops:
                term = nf.einsum("rd->r", nf.scale(mu, 0), what="wick") if False else None
                raise KeyError_("empty product")
            term = nf.einsum(",".join(specs) + "->r" + "".join(outl), *ops, what="wick-term")
            total = term if total is None else nf.add(total, term, what="wick-sum")
    return total

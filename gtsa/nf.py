"""Einstein-notation normal forms (NF) with sized, ordered multi-variable axes.

A value (`Val`) is   axes: list of axes, each an ordered tuple of index variables (major -> minor;
() is an axis of size 1)   and   terms: list of (coef, Net)   meaning  sum_t coef_t * prod of
head[index...] factors, every index variable that is not an axis variable being summed over.

This module is the trusted algebra of the checker (DESIGN.md section 2.3 / 2.4): shape + layout
discipline (ShapeError / LayoutError) and a small terminating rewrite system used to compare values.
Nothing in here imports or executes the analysed repository.
"""
from collections import Counter
from itertools import permutations
from .dim import Dim, D, dim_le as _dim_le


def dim_le(a, b):
    a, b = D(a), D(b)
    if _dim_le(a, b):
        return True
    if (repr(a), repr(b)) in ST.le_facts:
        return True
    # a <= b  if  a = a' + c, b = b' + c with (a', b') a known fact (common additive part)
    for fa, fb in ST.le_facts:
        pass
    return False


class ShapeError(Exception):
    """Sizes cannot agree for generic symbol values (a runtime error in JAX)."""


class LayoutError(Exception):
    """Sizes agree but components would be enumerated in a different order (scrambled data)."""


class Undecided(Exception):
    """The abstract domain cannot represent / decide the construct (never a violation)."""


class HeadInfo:
    __slots__ = ("kind", "sym", "arg", "bslots", "mslots", "extra")

    def __init__(s, kind, sym=False, arg=None, bslots=(), mslots=(), extra=None):
        s.kind, s.sym, s.arg, s.bslots, s.mslots, s.extra = kind, sym, arg, tuple(bslots), tuple(mslots), extra


class State:
    def __init__(s):
        s.size = {}
        s.n = 0
        s.head = {"delta": HeadInfo("delta", sym=True)}
        s.registry = {}     # kind -> list of hid
        s.pair = {}         # head -> inverse partner head
        s.gpair = {}        # general (non-symmetric) square matrix head <-> its inverse head: G W = W G = I, orientation matters
        s.lndet = {}        # head -> (coef Fraction, head) : LnDet(head) = coef * head2
        s.diag = {}         # head -> vector head: head[...,a,b] = vec[...,a] * delta[a,b]
        s.stats = Counter()
        s.le_facts = set()  # (repr(a), repr(b)) : a <= b assumed by the analysed code's own guards
        s.generic_nonzero = False
        s.ambient = set()         # index variables bound by an enclosing vmap: free in every value although not an axis
        s.scalar_matrix = set()   # symmetric heads whose matrix dimension is the literal 1 (no matrix indices)


ST = State()


def reset():
    global ST
    ST.__init__()


def fresh(size, p="i"):
    ST.n += 1
    v = f"{p}{ST.n}"
    ST.size[v] = D(size)
    return v


def size(v):
    return ST.size[v]


class Net:
    __slots__ = ("f",)

    def __init__(s, f=()):
        s.f = tuple(f)

    def rename(s, m):
        if not m:
            return s
        return Net([(h, tuple(m.get(i, i) for i in ix)) for h, ix in s.f])

    def vars(s):
        o = []
        seen = set()
        for _, ix in s.f:
            for i in ix:
                if i not in seen:
                    seen.add(i)
                    o.append(i)
        return o

    def __repr__(s):
        return "*".join(f"{h}[{','.join(ix)}]" for h, ix in s.f) or "1"


class Val:
    """Abstract array."""
    __slots__ = ("axes", "terms", "kind", "uninit")

    def __init__(s, axes, terms, kind="float", uninit=False):
        s.axes = [tuple(a) for a in axes]
        s.terms = [(D(c), n) for c, n in terms]
        s.kind = kind
        s.uninit = uninit

    @property
    def ndim(s):
        return len(s.axes)

    @property
    def shape(s):
        return tuple(axsize(a) for a in s.axes)

    def free(s):
        return [v for a in s.axes for v in a]

    def __repr__(s):
        return f"Val(shape={list(s.shape)}, {len(s.terms)} terms)"


def allfree(v):
    return set(v.free()) | ST.ambient


def axsize(a):
    d = D(1)
    for v in a:
        d = d * ST.size[v]
    return d


def fresh_axes(axes, p="i"):
    """fresh copy of an axis structure; returns (new_axes, map old->new)"""
    m = {}
    out = []
    for a in axes:
        na = []
        for v in a:
            w = fresh(ST.size[v], p)
            m[v] = w
            na.append(w)
        out.append(tuple(na))
    return out, m


def inst(val, m):
    """terms of val with free vars renamed by m and every bound var replaced by a fresh one."""
    fr = set(val.free()) | ST.ambient
    out = []
    for c, n in val.terms:
        mm = dict((k, v) for k, v in m.items() if k in fr)
        for i in n.vars():
            if i not in fr:
                mm[i] = fresh(ST.size[i], "b")
        out.append((c, n.rename(mm)))
    return out


def atom(name, sizes, sym=False, kind="float", owner=None):
    """A generic input tensor.  `sizes` entries: Dim/int; size 1 gives an empty axis.
    owner: tag of the object whose component batch the leading axis enumerates (for the parametricity rule)."""
    if name not in ST.head:
        ST.head[name] = HeadInfo("atom", sym=sym)
    if owner is not None and sizes and not D(sizes[0]).is_one():
        ST.head[name].extra = ("batch0", owner)
    if sym and len(sizes) >= 2 and D(sizes[-1]).is_one() and D(sizes[-2]).is_one():
        ST.scalar_matrix.add(name)
    axes = []
    idx = []
    for sz in sizes:
        if D(sz).is_one():
            axes.append(())
        else:
            v = fresh(sz)
            axes.append((v,))
            idx.append(v)
    return Val(axes, [(D(1), Net([(name, tuple(idx))]))], kind=kind)


def const(c, kind="float"):
    c = D(c)
    return Val([], [(c, Net())] if not c.is_zero() else [], kind=kind)


def zeros(shape, uninit=False):
    axes = [(() if D(d).is_one() else (fresh(d, "z"),)) for d in shape]
    return Val(axes, [], uninit=uninit)


def ones(shape):
    axes = [(() if D(d).is_one() else (fresh(d, "o"),)) for d in shape]
    return Val(axes, [(D(1), Net())])


def eye(n, m=None):
    n = D(n)
    if m is not None and D(m) != n:
        raise Undecided("rectangular eye")
    if n.is_one():
        return Val([(), ()], [(D(1), Net())])
    a, b = fresh(n), fresh(n)
    return Val([(a,), (b,)], [(D(1), Net([("delta", (a, b))]))])


def as_val(x):
    if isinstance(x, Val):
        return x
    return const(x)


# ---------------------------------------------------------------------------------- layout core

def _unify_axis(cur, a, m, what=""):
    """cur: current result axis (tuple of vars, may be ()), a: operand axis.  Fills m: a-var -> cur-var.
    Returns the (possibly newly created) result axis."""
    if not a:
        return cur
    if not cur:
        na = []
        for v in a:
            w = fresh(ST.size[v], "u")
            m[v] = w
            na.append(w)
        return tuple(na)
    if len(cur) != len(a) or any(ST.size[x] != ST.size[y] for x, y in zip(cur, a)):
        sa, sb = axsize(cur), axsize(a)
        if sa == sb:
            raise LayoutError(
                f"{what}: axes of equal size {sa} enumerate components in different order: "
                f"{[str(ST.size[x]) for x in cur]} vs {[str(ST.size[y]) for y in a]}")
        raise ShapeError(f"{what}: cannot broadcast size {sa} with {sb}")
    for x, y in zip(cur, a):
        m[y] = x
    return cur


def align(vals, what="broadcast"):
    nd = max(len(v.axes) for v in vals)
    out = [()] * nd
    maps = [dict() for _ in vals]
    for pos in range(1, nd + 1):
        cur = ()
        for k, v in enumerate(vals):
            if pos <= len(v.axes):
                cur = _unify_axis(cur, v.axes[-pos], maps[k], what)
        out[-pos] = cur
    return out, maps


def add(x, y, cy=1, what="add"):
    x, y = as_val(x), as_val(y)
    axes, (mx, my) = align([x, y], what)
    cy = D(cy)
    terms = inst(x, mx) + [(c * cy, n) for c, n in inst(y, my)]
    if len(terms) > 24:
        terms = normalize_terms(terms, {v for a in axes for v in a}, _absorb=False)
    return Val(axes, terms)


def scale(x, c):
    c = D(c)
    if c.is_zero():
        return Val(x.axes, [])
    return Val(x.axes, [(co * c, n) for co, n in x.terms], kind=x.kind)


def neg(x):
    return scale(x, -1)


def mul(x, y, what="mul"):
    x, y = as_val(x), as_val(y)
    axes, (mx, my) = align([x, y], what)
    t = []
    ty = None
    for c1, n1 in inst(x, mx):
        for c2, n2 in inst(y, my):
            t.append((c1 * c2, Net(n1.f + n2.f)))
    # each product term must have its own bound variables
    fr = {v for a in axes for v in a} | ST.ambient
    out = []
    for c, n in t:
        mm = {i: fresh(ST.size[i], "b") for i in n.vars() if i not in fr}
        out.append((c, n.rename(mm)))
    return Val(axes, _prune(out, fr))


def einsum(spec, *ops, what="einsum"):
    spec = spec.replace(" ", "")
    if "->" not in spec:
        raise Undecided("implicit einsum output")
    ins, out = spec.split("->")
    ins = ins.split(",")
    if len(ins) != len(ops):
        raise ShapeError(f"{what} '{spec}': {len(ins)} subscripts for {len(ops)} operands")
    letter = {}
    maps = []
    for s, v in zip(ins, ops):
        v = as_val(v)
        if len(s) != len(v.axes):
            raise ShapeError(f"{what} '{spec}': subscript '{s}' for operand of rank {len(v.axes)} {list(map(str, v.shape))}")
        if len(set(s)) != len(s):
            raise Undecided("repeated letter inside one einsum operand")
        m = {}
        for ch, a in zip(s, v.axes):
            letter[ch] = _unify_axis(letter.get(ch, ()), a, m, f"{what} '{spec}' letter '{ch}'")
        maps.append(m)
    for ch in out:
        if ch not in letter:
            raise ShapeError(f"{what} '{spec}': output letter {ch} unknown")
    out_axes = [letter[ch] for ch in out]
    terms = [(D(1), Net())]
    for v, m in zip(ops, maps):
        v = as_val(v)
        new = []
        vt = None
        for c1, n1 in terms:
            for c2, n2 in inst(v, m):
                new.append((c1 * c2, Net(n1.f + n2.f)))
        terms = new
        if len(terms) > 20000:
            raise Undecided("term cap")
    fr = {v for a in out_axes for v in a} | ST.ambient
    # contracted letters whose variables occur in no factor contribute their size
    res = []
    allv = [x for ch, a in letter.items() if ch not in out for x in a]
    for c, n in terms:
        occ = set(n.vars())
        mm = {}
        for i in n.vars():
            if i not in fr:
                mm[i] = fresh(ST.size[i], "b")
        cc = c
        for x in allv:
            if x not in occ:
                cc = cc * ST.size[x]
        res.append((cc, n.rename(mm)))
    return Val(out_axes, _prune(res, fr))


def _prune(terms, free):
    """cheap eager simplification: rewrite every term, drop zero terms; merge isomorphic terms when many."""
    if len(terms) < 4:
        return terms
    out = []
    for c, n in terms:
        r = simplify(c, n, free)
        if r is None or r[0].is_zero():
            continue
        out.append(r)
    if len(out) > 24:
        out = normalize_terms(out, free, _absorb=False)
    return out


def expand_dims(v, key):
    """key: list of None / 'keep' entries; remaining axes appended."""
    axes = []
    it = iter(v.axes)
    for k in key:
        if k is None:
            axes.append(())
        else:
            axes.append(next(it))
    axes.extend(it)
    return Val(axes, v.terms, kind=v.kind)


def tile(v, reps):
    reps = [D(r) for r in reps]
    nd = max(len(reps), len(v.axes))
    reps = [D(1)] * (nd - len(reps)) + reps
    axes = [()] * (nd - len(v.axes)) + list(v.axes)
    out = []
    for r, a in zip(reps, axes):
        out.append(a if r.is_one() else (fresh(r, "t"),) + tuple(a))
    return Val(out, v.terms, kind=v.kind)


def _total(vars_):
    d = D(1)
    for x in vars_:
        d = d * ST.size[x]
    return d


def reshape(v, target, what="reshape"):
    flat = [x for a in v.axes for x in a]
    target = list(target)
    tot = _total(flat)
    neg1 = [k for k, t in enumerate(target) if not isinstance(t, Dim) and t == -1]
    if len(neg1) > 1:
        raise ShapeError(f"{what}: more than one -1")
    if neg1:
        k = neg1[0]
        known = D(1)
        for j, t in enumerate(target):
            if j != k:
                known = known * D(t)
        try:
            target[k] = tot / known
        except ZeroDivisionError:
            raise ShapeError(f"{what}: cannot infer -1: {tot} / {known}")
    target = [D(t) for t in target]
    tt = D(1)
    for t in target:
        tt = tt * t
    if tot != tt:
        raise ShapeError(f"{what}: cannot reshape array of size {tot} {[str(s) for s in v.shape]} into shape {[str(t) for t in target]}")
    axes = []
    k = 0
    extra = []          # Split factors appended to every term
    ren = {}
    ti = 0
    for ti, t in enumerate(target):
        cur = D(1)
        grp = []
        # split one index variable into several consecutive target axes (row-major) when its size is their product
        if k < len(flat) and not t.is_one() and ST.size[flat[k]] != t:
            prod = D(1)
            j = ti
            while j < len(target) and prod != ST.size[flat[k]]:
                prod = prod * target[j]
                j += 1
                if j - ti > 4:
                    break
            if prod == ST.size[flat[k]] and j - ti >= 2 and all(not x.is_one() for x in target[ti:j]):
                parts = [fresh(x, "p") for x in target[ti:j]]
                hname = "Split:" + ",".join(str(x) for x in target[ti:j])
                if hname not in ST.head:
                    ST.head[hname] = HeadInfo("Split")
                nb = fresh(ST.size[flat[k]], "b")
                ren[flat[k]] = nb
                extra.append((hname, (nb,) + tuple(parts)))
                flat = flat[:k] + parts + flat[k + 1:]
        while cur != t:
            if k >= len(flat) or len(grp) > 8:
                raise LayoutError(
                    f"{what}: target shape {[str(x) for x in target]} is not a regrouping of consecutive "
                    f"index factors {[str(ST.size[x]) for x in flat]} (component order would be scrambled)")
            grp.append(flat[k])
            cur = cur * ST.size[flat[k]]
            k += 1
        axes.append(tuple(grp))
    if k != len(flat):
        raise LayoutError(f"{what}: leftover index factors")
    if extra:
        return Val(axes, [(c, Net(n.rename(ren).f + tuple(extra))) for c, n in v.terms], kind=v.kind)
    return Val(axes, v.terms, kind=v.kind)


def swapaxes(v, i, j):
    a = list(v.axes)
    a[i], a[j] = a[j], a[i]
    return Val(a, v.terms, kind=v.kind)


def transpose(v):
    return Val(list(reversed(v.axes)), v.terms, kind=v.kind)


def _norm_axis(ax, nd):
    ax = int(ax)
    if ax < 0:
        ax += nd
    if not 0 <= ax < nd:
        raise ShapeError(f"axis {ax} out of range for rank {nd}")
    return ax


def sum_axis(v, axis, keepdims=False):
    nd = len(v.axes)
    if axis is None:
        axs = list(range(nd))
    elif isinstance(axis, (tuple, list)):
        axs = [_norm_axis(a, nd) for a in axis]
    else:
        axs = [_norm_axis(axis, nd)]
    axes = []
    dropped = []
    for k, a in enumerate(v.axes):
        if k in axs:
            dropped.extend(a)
            if keepdims:
                axes.append(())
        else:
            axes.append(a)
    terms = []
    for c, n in v.terms:
        occ = set(n.vars())
        cc = c
        for x in dropped:
            if x not in occ:
                cc = cc * ST.size[x]
        terms.append((cc, n))
    r = Val(axes, terms)
    # re-instantiate so that bound vars are fresh
    na, m = fresh_axes(r.axes)
    return Val(na, inst(r, m))


def diagonal(v, axis1=0, axis2=1):
    nd = len(v.axes)
    a1, a2 = _norm_axis(axis1, nd), _norm_axis(axis2, nd)
    A, B = v.axes[a1], v.axes[a2]
    m = {}
    if len(A) != len(B) or any(ST.size[x] != ST.size[y] for x, y in zip(A, B)):
        raise ShapeError(f"diagonal of non-square axes {axsize(A)} x {axsize(B)}")
    new = tuple(fresh(ST.size[x], "g") for x in A)
    for x, y, w in zip(A, B, new):
        m[x] = w
        m[y] = w
    axes = [a for k, a in enumerate(v.axes) if k not in (a1, a2)] + [new]
    return Val(axes, [(c, n.rename(m)) for c, n in v.terms])


def trace(v, axis1=0, axis2=1):
    d = diagonal(v, axis1, axis2)
    return sum_axis(d, -1)


# ------------------------------------------------------------------------- embeddings / slices

def seg_head(off, length, total):
    off, length, total = D(off), D(length), D(total)
    name = f"E:{off}|{length}|{total}"
    if name not in ST.head:
        ST.head[name] = HeadInfo("E", extra=(off, length, total))
    return name


def slice_axis(v, ax, lo, hi):
    """v[..., lo:hi, ...] on axis ax with symbolic boundaries (contraction with an embedding head)."""
    nd = len(v.axes)
    ax = _norm_axis(ax, nd)
    A = v.axes[ax]
    tot = axsize(A)
    lo = D(0) if lo is None else D(lo)
    hi = tot if hi is None else D(hi)
    if lo.is_const() and lo.value() < 0:
        lo = tot + lo
    if hi.is_const() and hi.value() < 0:
        hi = tot + hi
    if lo.is_zero() and hi == tot:
        return v
    if not (dim_le(0, lo) and dim_le(lo, hi) and dim_le(hi, tot)):
        raise ShapeError(f"slice [{lo}:{hi}] not within axis of size {tot} for generic sizes")
    ln = hi - lo
    if len(A) != 1:
        if not A:
            raise ShapeError(f"slice [{lo}:{hi}] of a size-1 axis")
        raise Undecided("slice of a composite axis")
    big = A[0]
    h = seg_head(lo, ln, tot)
    nb = fresh(tot, "b")
    if ln.is_one():
        small = ()
        fac = (h, (nb,))
    else:
        w = fresh(ln, "s")
        small = (w,)
        fac = (h, (nb, w))
    terms = [(c, Net(n.rename({big: nb}).f + (fac,))) for c, n in v.terms]
    axes = list(v.axes)
    axes[ax] = small
    return Val(axes, terms)


def embed_axis(v, ax, off, total):
    """place axis ax of v (size len) at offset off inside a new axis of size total."""
    nd = len(v.axes)
    ax = _norm_axis(ax, nd)
    A = v.axes[ax]
    ln = axsize(A)
    total, off = D(total), D(off)
    if off.is_zero() and ln == total:
        return v
    if len(A) > 1:
        raise Undecided("embedding of a composite axis")
    h = seg_head(off, ln, total)
    big = fresh(total, "g")
    if not A:
        fac = (h, (big,))
        terms = [(c, Net(n.f + (fac,))) for c, n in v.terms]
    else:
        nb = fresh(ln, "b")
        fac = (h, (big, nb))
        terms = [(c, Net(n.rename({A[0]: nb}).f + (fac,))) for c, n in v.terms]
    axes = list(v.axes)
    axes[ax] = (big,)
    return Val(axes, terms)


def concat(vals, axis, what="concatenate"):
    vals = [as_val(v) for v in vals]
    nd = len(vals[0].axes)
    if any(len(v.axes) != nd for v in vals):
        raise ShapeError(f"{what}: operands of different rank {[len(v.axes) for v in vals]}")
    axis = _norm_axis(axis, nd)
    total = D(0)
    offs = []
    for v in vals:
        offs.append(total)
        total = total + v.shape[axis]
    # numpy concatenate does NOT broadcast: all other axes must agree exactly
    for k in range(nd):
        if k == axis:
            continue
        s0 = vals[0].shape[k]
        for v in vals[1:]:
            if v.shape[k] != s0:
                raise ShapeError(f"{what}: axis {k} sizes differ ({s0} vs {v.shape[k]}); concatenate does not broadcast")
    out = None
    for v, o in zip(vals, offs):
        e = embed_axis(v, axis, o, total)
        out = e if out is None else add(out, e, what=what)
    return out


def set_slices(base, slices, value, what=".at[].set"):
    """base.at[slices].set(value) for a zero / uninitialised base; slices: list per axis of (lo,hi) or None"""
    v = as_val(value)
    nd = len(base.axes)
    slices = list(slices) + [None] * (nd - len(slices))
    if base.terms:
        # allowed when every existing term lives in a region disjoint from the one being written
        ok = False
        for k, sl in enumerate(slices):
            if sl is None or len(base.axes[k]) != 1:
                continue
            big = base.axes[k][0]
            tot = axsize(base.axes[k])
            lo = D(0) if sl[0] is None else D(sl[0])
            hi = tot if sl[1] is None else D(sl[1])
            hnew = seg_head(lo, hi - lo, tot)
            if all(any(ST.head[h].kind == "E" and ix[0] == big and _seg_relation(h, hnew) == "disjoint" for h, ix in n.f) for _, n in base.terms):
                ok = True
                break
        if not ok:
            raise Undecided(".at[].set overwriting a region that may already hold values")
    tshape = []
    for k, sl in enumerate(slices):
        tot = axsize(base.axes[k])
        if sl is None:
            tshape.append(tot)
        else:
            lo, hi = sl
            lo = D(0) if lo is None else D(lo)
            hi = tot if hi is None else D(hi)
            if not (dim_le(0, lo) and dim_le(lo, hi) and dim_le(hi, tot)):
                raise ShapeError(f"{what}: slice [{lo}:{hi}] outside axis of size {tot}")
            tshape.append(hi - lo)
    # broadcast value to the target region
    if len(v.axes) > nd:
        raise ShapeError(f"{what}: value rank {len(v.axes)} > target rank {nd}")
    v = Val([()] * (nd - len(v.axes)) + list(v.axes), v.terms)
    for k in range(nd):
        sv = v.shape[k]
        if not sv.is_one() and sv != tshape[k]:
            raise ShapeError(f"{what}: value axis {k} of size {sv} does not fit region of size {tshape[k]}")
    res = v
    for k, sl in enumerate(slices):
        tot = axsize(base.axes[k])
        if sl is None:
            continue
        lo = D(0) if sl[0] is None else D(sl[0])
        if res.shape[k].is_one() and not tshape[k].is_one():
            res = mul(res, _ones_on_axis(nd, k, tshape[k]))
        res = embed_axis(res, k, lo, tot)
    out = add(Val(base.axes, base.terms), res, what=what)
    return out


def _ones_on_axis(nd, k, n):
    axes = [()] * nd
    axes[k] = (fresh(n, "o"),)
    return Val(axes, [(D(1), Net())])


# ----------------------------------------------------------------------------- selections

def sel_head(name, perm=False, inj=False):
    h = f"Sel:{name}"
    if h not in ST.head:
        ST.head[h] = HeadInfo("Sel", extra="perm" if perm else ("inj" if inj else None))
    return h


def gather_axis(v, ax, idxname, newsize, perm=False, inverse=False, inj=False):
    """v.take(idx, axis=ax) / v[..., idx, ...]: contraction with a one-hot selection head.
    perm: idx is a permutation of the whole axis (distinct indices, newsize == size): the head is orthogonal.
    inverse (perm only): gather with the inverse permutation = the same head with its two slots exchanged."""
    nd = len(v.axes)
    ax = _norm_axis(ax, nd)
    A = v.axes[ax]
    h = sel_head(idxname, perm and axsize(A) == D(newsize), inj)
    if inverse and not (perm and axsize(A) == D(newsize) and ST.head[h].extra == "perm"):
        raise Undecided("inverse of an index array that is not a permutation of the whole axis")
    newsize = D(newsize)
    if len(A) > 1:
        raise Undecided("gather on a composite axis")
    if not A:
        # gathering from an axis of size 1: every index is 0 -> replicate
        axes = list(v.axes)
        axes[ax] = () if newsize.is_one() else (fresh(newsize, "t"),)
        return Val(axes, v.terms, kind=v.kind)
    old = A[0]
    nb = fresh(ST.size[old], "b")
    if newsize.is_one():
        new = ()
        fac = (h, (nb,))
        # arity-1 selection: one-hot vector
    else:
        w = fresh(newsize, "s")
        new = (w,)
        fac = (h, (nb, w)) if inverse else (h, (w, nb))
    terms = [(c, Net(n.rename({old: nb}).f + (fac,))) for c, n in v.terms]
    axes = list(v.axes)
    axes[ax] = new
    return Val(axes, terms, kind=v.kind)


# --------------------------------------------------------------------------------- opaque heads

def head_arg_val(hid, ix, axes_like):
    """the argument of opaque head `hid` applied at indices ix, as a Val whose axes are the given index vars."""
    info = ST.head[hid]
    slots = info.bslots + info.mslots
    m = dict(zip(slots, ix))
    terms = []
    for c, n in info.arg[1]:
        mm = dict(m)
        for i in n.vars():
            if i not in mm:
                mm[i] = fresh(ST.size[i], "b")
        terms.append((c, n.rename(mm)))
    return Val(axes_like, terms)


def _single_factor(nt):
    if len(nt) == 1 and len(nt[0][1].f) == 1:
        return nt[0][0], nt[0][1].f[0]
    return None


def _try_lift(v, nt, fn, protect=0):
    """f(x o sigma) = f(x) o sigma for per-component functions and batch re-indexings sigma (one-hot Sel heads).
    If a free axis variable w of v enters every term only through one factor Sel[w, r] with r bound, strip the
    selection, apply fn to the stripped value and re-apply the selection to the result."""
    if not nt:
        return None
    nax = len(v.axes) - protect
    for k in range(nax):
        a = v.axes[k]
        if len(a) != 1:
            continue
        w = a[0]
        sel = None
        ok = True
        picks = []
        for c, n in nt:
            occ = [(h, ix) for h, ix in n.f if w in ix]
            if len(occ) != 1 or ST.head[occ[0][0]].kind != "Sel" or len(occ[0][1]) != 2 or occ[0][1][0] != w:
                ok = False
                break
            h, ix = occ[0]
            r = ix[1]
            if r == w or sum(1 for _, jx in n.f for j in jx if j == r) < 1:
                ok = False
                break
            if sel is None:
                sel = h
            elif sel != h:
                ok = False
                break
            picks.append(r)
        if not ok or sel is None:
            continue
        # strip
        rsize = ST.size[picks[0]]
        if any(ST.size[r] != rsize for r in picks):
            continue
        nw = fresh(rsize, "l")
        terms = []
        for (c, n), r in zip(nt, picks):
            f2 = [(h, ix) for h, ix in n.f if not (h == sel and ix == (w, r))]
            terms.append((c, Net(f2).rename({r: nw})))
        axes = list(v.axes)
        axes[k] = (nw,)
        stripped = Val(axes, terms, kind=v.kind)
        res = fn(stripped)
        name = sel[len("Sel:"):]

        def regather(x):
            return gather_axis(x, k, name, ST.size[w])
        if isinstance(res, tuple):
            return tuple(regather(x) for x in res)
        return regather(res)
    return None


def _occurring(val, nterms):
    occ = set()
    for _, n in nterms:
        occ.update(n.vars())
    return [v for v in val.free() if v in occ] + sorted(v for v in ST.ambient if v in occ)


def _find_or_make(kind, nterms, bslots, mslots, sym, extra=None):
    """hash-consing of opaque applications modulo NF equality of the argument."""
    ST.stats["opaque_lookup"] += 1
    sig = _terms_sig(nterms)
    for hid in ST.registry.get(kind, []):
        info = ST.head[hid]
        if info.extra != extra or len(info.bslots) != len(bslots) or len(info.mslots) != len(mslots):
            continue
        if info.arg[0] != sig:
            continue
        if sorted(str(ST.size[x]) for x in info.bslots) != sorted(str(ST.size[x]) for x in bslots):
            continue
        if any(ST.size[x] != ST.size[y] for x, y in zip(info.mslots, mslots)):
            continue
        morders = [tuple(mslots)]
        if sym and len(mslots) == 2:
            morders.append((mslots[1], mslots[0]))
        for perm in permutations(range(len(bslots))):
            if any(ST.size[info.bslots[i]] != ST.size[bslots[p]] for i, p in enumerate(perm)):
                continue
            for mo in morders:
                m = {info.bslots[i]: bslots[p] for i, p in enumerate(perm)}
                m.update(dict(zip(info.mslots, mo)))
                fr = set(bslots) | set(mslots)
                stored = [(c, n.rename(m)) for c, n in info.arg[1]]
                if any(h == "delta" for _, n in stored for h, _ in n.f):
                    stored = normalize_terms(stored, fr)
                if terms_equal(stored, nterms, fr):
                    return hid, tuple(bslots[p] for p in perm)
    hid = f"{kind}#{len(ST.head)}"
    ST.head[hid] = HeadInfo(kind, sym=sym, arg=(sig, nterms), bslots=bslots, mslots=mslots, extra=extra)
    ST.registry.setdefault(kind, []).append(hid)
    return hid, tuple(bslots)


def _terms_sig(nterms):
    return tuple(sorted((repr(c), tuple(sorted((h, len(ix)) for h, ix in n.f))) for c, n in nterms))


PARITY = {"Phi": "complement", "phi": "even", "Normpdf": "even", "Cosh": "even", "Tanh": "odd", "Abs": "even"}


def _negative_orientation(nt):
    """deterministic choice between x and -x: the term with the smallest structural key has a negative leading coefficient."""
    def key(t):
        c, n = t
        return (len(n.f), tuple(sorted((h.split("#")[0], len(ix)) for h, ix in n.f)), tuple(sorted(map(str, abs_dim(c).t))))
    c, n = min(nt, key=key)
    ks = [t for t in nt if key(t) == key((c, n))]
    if len(ks) > 1:
        return False
    lead = sorted(c.t.items())[0][1]
    return lead < 0


def abs_dim(c):
    return Dim({k: abs(v) for k, v in c.t.items()})


def elementwise(kind, v, extra=None):
    """opaque elementwise function application  kind(v)."""
    v = as_val(v)
    nt = normalize(v)
    if kind == "Exp" and not nt:
        return Val(v.axes, [(D(1), Net())])
    if kind in ("Log",) and len(nt) == 1 and not nt[0][1].f and nt[0][0].is_one():
        return Val(v.axes, [])
    if kind in ("Sqrt",) and len(nt) == 1 and not nt[0][1].f and nt[0][0].is_one():
        return Val(v.axes, [(D(1), Net())])
    if kind in ("Sqrt", "Tanh", "Abs", "Sign", "Relu", "Ne0", "Gt0", "Lt0") and not nt:
        return Val(v.axes, [], kind="bool" if kind.endswith("0") else v.kind)
    if kind in ("Ge0", "Le0", "Eq0") and not nt:
        return Val(v.axes, [(D(1), Net())], kind="bool")
    if kind == "Recip" and len(nt) == 1 and not nt[0][1].f and nt[0][0].is_const():
        return Val(v.axes, [(D(1) / nt[0][0], Net())])
    if kind == "Sqrt" and len(nt) == 1 and nt[0][0].is_one() and nt[0][1].f and all(ST.head[h].kind == "Recip" for h, _ in nt[0][1].f) \
            and all(x in allfree(v) for _, ix in nt[0][1].f for x in ix):
        # sqrt(1/X) = sqrt(X) / X   (one canonical form for standard deviations and their reciprocals; X a product of positive scalars)
        X = None
        for h, ix in nt[0][1].f:
            a = head_arg_val(h, ix, v.axes)
            X = a if X is None else mul(X, a)
        return mul(elementwise("Recip", X), elementwise("Sqrt", X))
    if kind == "IsFinite":
        # arrays are built from finite generic tensors (infinite constants are not modelled): the guard is identically true
        return Val(v.axes, [(D(1), Net())], kind="bool")
    if kind == "Ne0" and ST.generic_nonzero and nt:
        return Val(v.axes, [(D(1), Net())], kind="bool")       # a non-zero normal form is non-zero for generic inputs
    if kind == "Eq0" and ST.generic_nonzero and nt:
        return Val(v.axes, [], kind="bool")
    if kind in PARITY and nt and _negative_orientation(nt):
        pos = elementwise(kind, neg(v), extra)
        if PARITY[kind] == "even":
            return pos
        if PARITY[kind] == "odd":
            return neg(pos)
        return add(const(1), pos, -1)                            # Phi(-x) = 1 - Phi(x)
    lifted = _try_lift(v, nt, lambda x: elementwise(kind, x, extra))
    if lifted is not None:
        return lifted
    if kind == "Recip" and len(nt) == 1 and len(nt[0][1].f) >= 2 and nt[0][0].is_const() and all(x in allfree(v) for _, ix in nt[0][1].f for x in ix):
        # 1/(c * f1 * f2 ...) = (1/c) * 1/f1 * 1/f2 ...
        out = const(D(1) / nt[0][0])
        out = Val(v.axes, [(D(1) / nt[0][0], Net())])
        for g in nt[0][1].f:
            out = mul(out, elementwise("Recip", Val(v.axes, [(D(1), Net([g]))])))
        return out
    sf = _single_factor(nt)
    if sf is not None and sf[0].is_one() and ST.head[sf[1][0]].kind == "Recip" and all(x in allfree(v) for x in sf[1][1]):
        inner = head_arg_val(sf[1][0], sf[1][1], v.axes)
        if kind == "Recip":
            return Val(v.axes, inner.terms)                 # 1/(1/X) = X
        if kind == "Log":
            return neg(elementwise("Log", inner))           # log(1/X) = -log X
    if kind == "Log" and sf is not None and sf[0].is_one() and ST.head[sf[1][0]].kind == "Exp" and all(x in allfree(v) for x in sf[1][1]):
        return Val(v.axes, head_arg_val(sf[1][0], sf[1][1], v.axes).terms)      # log(exp(X)) = X
    slots = _occurring(v, nt)
    hid, order = _find_or_make(kind, nt, slots, (), False, extra)
    axes, m = fresh_axes(v.axes)
    return Val(axes, [(D(1), Net([(hid, tuple(m.get(x, x) for x in order))]))])


def _matrix_axes(v, what):
    if len(v.axes) < 2:
        raise ShapeError(f"{what}: operand of rank {len(v.axes)} is not a (batch of) matrices")
    A, B = v.axes[-2], v.axes[-1]
    if axsize(A) != axsize(B):
        raise ShapeError(f"{what}: last two axes are not square: {axsize(A)} x {axsize(B)}")
    if len(A) > 1 or len(B) > 1:
        raise Undecided(f"{what}: composite matrix axis")
    return A, B


def ginverse(v, what="linalg.inv"):
    """inverse of a general square matrix given as one (non-symmetric) atom, possibly transposed: a partner head GInv(h) with
    GInv(h) h = h GInv(h) = I (no symmetry is assumed; products reduce only in the orientation of a matrix product)."""
    v = as_val(v)
    A, B = _matrix_axes(v, what)
    nt = normalize(v)
    if not (A and B) or len(nt) != 1 or len(nt[0][1].f) != 1 or not nt[0][0].is_const():
        raise Undecided(f"{what}: inverse of a general matrix that is not a single tensor")
    c, n = nt[0]
    h, ix = n.f[0]
    info = ST.head[h]
    if info.kind != "atom" or len(ix) < 2 or set(ix[-2:]) != {A[0], B[0]} or len(set(ix)) != len(ix):
        raise Undecided(f"{what}: inverse of a general matrix that is not a plain input tensor")
    if info.sym:
        return inverse(v, what)[0]
    gh = ST.gpair.get(h)
    if gh is None:
        gh = f"GInv({h})"
        ST.head[gh] = HeadInfo("GInvAtom")
        ST.gpair[h] = gh
        ST.gpair[gh] = h
    axes, m = fresh_axes(v.axes)
    # (W^-1)[a,b] at the positions of W[a,b];  for a transposed argument the result is transposed as well
    return Val(axes, [(D(1) / c, Net([(gh, tuple(m.get(x, x) for x in ix))]))])


def _strip_perm_conjugation(v, nt, A, B):
    """v = P X P' with P a permutation head acting on both matrix axes (same head, same orientation in every term):
    returns (X as a Val, head, slot position of the matrix index) or None."""
    if not nt or len(A) != 1 or len(B) != 1:
        return None
    a, b = A[0], B[0]
    found = None
    stripped = []
    na, nb_ = fresh(ST.size[a], "p"), fresh(ST.size[b], "p")
    for c, n in nt:
        fa = [(k, h, ix) for k, (h, ix) in enumerate(n.f) if ST.head[h].kind == "Sel" and ST.head[h].extra == "perm" and len(ix) == 2 and a in ix]
        fb = [(k, h, ix) for k, (h, ix) in enumerate(n.f) if ST.head[h].kind == "Sel" and ST.head[h].extra == "perm" and len(ix) == 2 and b in ix]
        if len(fa) != 1 or len(fb) != 1 or fa[0][1] != fb[0][1] or fa[0][0] == fb[0][0]:
            return None
        (ka, h, ixa), (kb, _, ixb) = fa[0], fb[0]
        pos = ixa.index(a)
        if ixb.index(b) != pos or (found is not None and found != (h, pos)):
            return None
        cntv = Counter(i for _, ix in n.f for i in ix)
        if cntv[a] != 1 or cntv[b] != 1:
            return None
        found = (h, pos)
        ia, ib = ixa[1 - pos], ixb[1 - pos]
        if ia == ib:
            rest = Net([g for k, g in enumerate(n.f) if k not in (ka, kb)] + [("delta", (na, nb_))]).rename({ia: na})
        else:
            rest = Net([g for k, g in enumerate(n.f) if k not in (ka, kb)]).rename({ia: na, ib: nb_})
        stripped.append((c, rest))
    X = Val(list(v.axes[:-2]) + [(na,), (nb_,)], stripped)
    return X, found[0], found[1]


def _apply_perm(x, ax, h, pos):
    """contract axis ax of x with permutation head h, the new (free) index in slot `pos`"""
    nd = len(x.axes)
    ax = _norm_axis(ax, nd)
    A = x.axes[ax]
    old = A[0]
    nb_ = fresh(ST.size[old], "b")
    w = fresh(ST.size[old], "s")
    fac = (h, (w, nb_)) if pos == 0 else (h, (nb_, w))
    terms = [(c, Net(n.rename({old: nb_}).f + (fac,))) for c, n in x.terms]
    axes = list(x.axes)
    axes[ax] = (w,)
    return Val(axes, terms, kind=x.kind)


def inverse(v, what="inverse"):
    """returns (Inv(v), LnDet(v)) for a batch of symmetric positive definite matrices."""
    v = as_val(v)
    A, B = _matrix_axes(v, what)
    nt = normalize(v)
    lifted = _try_lift(v, nt, lambda x: inverse(x, what), protect=2)
    if lifted is not None:
        return lifted
    sp = _strip_perm_conjugation(v, nt, A, B)
    if sp is not None:
        # Inv(P X P') = P Inv(X) P',  LnDet(P X P') = LnDet(X)
        X, h, pos = sp
        iX, ld = inverse(X, what)
        return _apply_perm(_apply_perm(iX, -2, h, pos), -1, h, pos), ld
    axes, m = fresh_axes(v.axes)
    baxes = axes[:-2]
    mvars = tuple(A) + tuple(B)
    # --- single known head: use its registered partner / log-determinant
    scalar = (not A) and (not B)
    if len(nt) == 1 and len(nt[0][1].f) == 1 and nt[0][0].is_const() and ((A and B) or scalar):
        c, n = nt[0]
        h, ix = n.f[0]
        if ((scalar and ST.head[h].kind in ("atom", "InvAtom")) or (len(ix) >= 2 and A and B and set(ix[-2:]) == {A[0], B[0]})) and ST.head[h].sym and ST.head[h].kind != "Inv" and all((x in m or x in ST.ambient) for x in ix) and len(set(ix)) == len(ix):
            if h not in ST.pair:
                nh = f"Inv({h})"
                ST.head[nh] = HeadInfo("InvAtom", sym=True)
                ST.pair[h] = nh
                ST.pair[nh] = h
                if scalar:
                    ST.scalar_matrix.add(h)
                    ST.scalar_matrix.add(nh)
            ph = ST.pair[h]
            if h in ST.lndet and ph not in ST.lndet:
                ST.lndet[ph] = (-ST.lndet[h][0], ST.lndet[h][1])
            inv = Val(axes, [(D(1) / c, Net([(ph, tuple(m.get(x, x) for x in ix))]))])
            if h not in ST.lndet:
                if ph in ST.lndet:
                    pc, plh = ST.lndet[ph]
                    ST.lndet[h] = (-pc, plh)
                else:
                    lh = f"LnDet({h})"
                    ST.head[lh] = HeadInfo("LnDetAtom")
                    ST.lndet[h] = (1, lh)
                    ST.lndet[ph] = (-1, lh)
            lc, lh = ST.lndet[h]
            bix = ix if scalar else ix[:-2]
            ld_terms = [(D(lc), Net([(lh, tuple(m.get(x, x) for x in bix))]))]
            if not c.is_one():
                lg = elementwise("Log", const(c))
                ld_terms = ld_terms + [(cc * (D(1) if scalar else ST.size[A[0]]), nn) for cc, nn in lg.terms]
            return inv, Val(baxes, ld_terms)
    # --- diagonal argument  d[...,a] * delta[a,b]
    dg = _as_diagonal(nt, A, B)
    if dg is not None:
        dvec = Val(list(v.axes[:-2]) + [A], dg)
        rec = elementwise("Recip", dvec)
        lg = sum_axis(elementwise("Log", dvec), -1)
        e = eye(axsize(A))
        inv = mul(expand_dims(rec, ["k"] * (len(rec.axes)) + [None]), e)
        return inv, lg
    if scalar and nt:
        # 1 x 1 "matrices": inverse = reciprocal, log-determinant = logarithm
        return elementwise("Recip", v), _drop_last2(elementwise("Log", v))
    sf = _single_factor(nt)
    if sf is not None and sf[0].is_one() and ST.head[sf[1][0]].kind == "Inv" and all(x in allfree(v) for x in sf[1][1]) and A and B:
        inner = head_arg_val(sf[1][0], sf[1][1], v.axes)      # Inv(Inv(X)) = X
        return Val(v.axes, inner.terms), neg(logdet(inner, what))
    if A and B and axsize(A) == D(2) and axsize(B) == D(2) and nt:
        # literal 2 x 2 matrices: the closed form  [[a, b], [c, d]]^-1 = [[d, -b], [-c, a]] / (ad - bc),  ln det = log(ad - bc)
        k = len(v.axes)

        def entry(i, j):
            e = slice_axis(slice_axis(v, k - 2, D(i), D(i + 1)), k - 1, D(j), D(j + 1))
            return Val(e.axes[:-2], e.terms)
        a_, b_, c_, d_ = entry(0, 0), entry(0, 1), entry(1, 0), entry(1, 1)
        det = add(mul(a_, d_), mul(b_, c_), -1)
        rdet = elementwise("Recip", det)

        def place(x, i, j):
            x = expand_dims(x, ["k"] * len(x.axes) + [None, None])
            return embed_axis(embed_axis(x, k - 2, D(i), D(2)), k - 1, D(j), D(2))
        adj = add(add(place(d_, 0, 0), place(a_, 1, 1)), add(place(b_, 0, 1), place(c_, 1, 0)), -1)
        inv = mul(expand_dims(rdet, ["k"] * len(rdet.axes) + [None, None]), adj)
        return inv, elementwise("Log", det)
    occ = _occurring(v, nt)
    bsl = [x for x in occ if x not in mvars]
    hid, order = _find_or_make("Inv", nt, bsl, mvars, True)
    inv = Val(axes, [(D(1), Net([(hid, tuple(m.get(x, x) for x in order) + tuple(m[x] for x in mvars))]))])
    ld = logdet(v, what)
    return inv, ld


def _as_diagonal(nt, A, B):
    """if every term is  X * delta[a,b] (a,b the matrix axes) return the terms of the diagonal vector (over a)."""
    if not nt or not A or not B:
        return None
    a, b = A[0], B[0]
    out = []
    for c, n in nt:
        k = [i for i, (h, ix) in enumerate(n.f) if h == "delta" and set(ix) == {a, b}]
        if len(k) != 1:
            return None
        rest = [f for i, f in enumerate(n.f) if i != k[0]]
        out.append((c, Net(rest).rename({b: a})))
    return out


def _drop_last2(v):
    return Val(v.axes[:-2], v.terms)


def logdet(v, what="slogdet"):
    v = as_val(v)
    A, B = _matrix_axes(v, what)
    nt = normalize(v)
    lifted = _try_lift(v, nt, lambda x: logdet(x, what), protect=2)
    if lifted is not None:
        return lifted
    sp = _strip_perm_conjugation(v, nt, A, B)
    if sp is not None:
        return logdet(sp[0], what)
    axes, m = fresh_axes(v.axes)
    baxes = axes[:-2]
    mvars = tuple(A) + tuple(B)
    scalar = (not A) and (not B)
    if scalar and len(nt) == 1 and len(nt[0][1].f) == 1 and nt[0][0].is_one():
        h, ix = nt[0][1].f[0]
        if h in ST.lndet and all((x in m or x in ST.ambient) for x in ix):
            lc, lh = ST.lndet[h]
            return Val(baxes, [(D(lc), Net([(lh, tuple(m.get(x, x) for x in ix))]))])
    if len(nt) == 1 and len(nt[0][1].f) == 1 and nt[0][0].is_one() and A and B:
        c, n = nt[0]
        h, ix = n.f[0]
        if len(ix) >= 2 and set(ix[-2:]) == {A[0], B[0]} and ST.head[h].sym and ST.head[h].kind != "Inv" and h not in ST.lndet and all((x in m or x in ST.ambient) for x in ix) and len(set(ix)) == len(ix):
            lh = f"LnDet({h})"
            ST.head[lh] = HeadInfo("LnDetAtom")
            ST.lndet[h] = (1, lh)
            if h in ST.pair:
                ST.lndet[ST.pair[h]] = (-1, lh)
        if len(ix) >= 2 and set(ix[-2:]) == {A[0], B[0]} and h in ST.lndet and all((x in m or x in ST.ambient) for x in ix) and len(set(ix)) == len(ix):
            lc, lh = ST.lndet[h]
            return Val(baxes, [(D(lc), Net([(lh, tuple(m.get(x, x) for x in ix[:-2]))]))])
    dg = _as_diagonal(nt, A, B)
    if dg is not None:
        dvec = Val(list(v.axes[:-2]) + [A], dg)
        return sum_axis(elementwise("Log", dvec), -1)
    if scalar and nt:
        return _drop_last2(elementwise("Log", v))
    sf = _single_factor(nt)
    if sf is not None and sf[0].is_one() and ST.head[sf[1][0]].kind == "Inv" and all(x in allfree(v) for x in sf[1][1]) and A and B:
        # LnDet(Inv(X)) = -LnDet(X)
        inner = head_arg_val(sf[1][0], sf[1][1], v.axes)
        return neg(logdet(inner, what))
    occ = _occurring(v, nt)
    bsl = [x for x in occ if x not in mvars]
    # LnDet is invariant under transposition: treat argument symmetric for lookup
    hid, order = _find_or_make("LnDet", nt, bsl, mvars, True)
    return Val(baxes, [(D(1), Net([(hid, tuple(m.get(x, x) for x in order))]))])


def matfun(kind, v, what=None):
    """opaque matrix -> matrix function without symmetry (Chol)."""
    v = as_val(v)
    A, B = _matrix_axes(v, what or kind)
    nt = normalize(v)
    axes, m = fresh_axes(v.axes)
    mvars = tuple(A) + tuple(B)
    occ = _occurring(v, nt)
    bsl = [x for x in occ if x not in mvars]
    hid, order = _find_or_make(kind, nt, bsl, mvars, False)
    return Val(axes, [(D(1), Net([(hid, tuple(m.get(x, x) for x in order) + tuple(m[x] for x in mvars))]))])


# --------------------------------------------------------------------------------- rewriting

def _seg_relation(h1, h2):
    if h1 == h2:
        return "same"
    o1, l1, t1 = ST.head[h1].extra
    o2, l2, t2 = ST.head[h2].extra
    if t1 != t2:
        return "unknown"
    if dim_le(o1 + l1, o2) or dim_le(o2 + l2, o1):
        return "disjoint"
    return "unknown"


def simplify(coef, net, free):
    """apply the fixed rewrite system to one term; returns (coef, Net) or None when the term is zero."""
    if ST.ambient:
        free = set(free) | ST.ambient
    f = list(net.f)
    H = ST.head
    guard = 0
    while True:
        guard += 1
        if guard > 500:
            raise Undecided("simplify did not terminate")
        cnt = Counter(i for _, ix in f for i in ix)
        changed = False
        # ---- delta
        for k, (h, ix) in enumerate(f):
            if h != "delta":
                continue
            i, j = ix
            if i == j:
                if i not in free and cnt[i] == 2:
                    coef = coef * ST.size[i]
                del f[k]
                changed = True
                break
            src = tgt = None
            if j not in free:
                src, tgt = j, i
            elif i not in free:
                src, tgt = i, j
            if src is not None:
                del f[k]
                f = [(hh, tuple(tgt if x == src else x for x in ii)) for hh, ii in f]
                changed = True
                break
        if changed:
            continue
        # ---- inverse pairs
        for i1, (h1, x1) in enumerate(f):
            p = ST.pair.get(h1)
            if p is None:
                continue
            hit = False
            for i2, (h2, x2) in enumerate(f):
                # 1 x 1 matrices (literal dimension one): S[r] * L[r] = 1
                if i2 != i1 and h2 == p and x2 == x1 and h1 in ST.scalar_matrix and p in ST.scalar_matrix:
                    f = [g for k, g in enumerate(f) if k not in (i1, i2)]
                    changed = hit = True
                    break
            if hit:
                break
            if len(x1) < 2:
                continue
            for i2, (h2, x2) in enumerate(f):
                if i1 == i2 or h2 != p or len(x2) != len(x1) or x1[:-2] != x2[:-2]:
                    continue
                for s in x1[-2:]:
                    if s in free or s not in x2[-2:] or cnt[s] != 2:
                        continue
                    a = list(x1[-2:])
                    a.remove(s)
                    c = list(x2[-2:])
                    c.remove(s)
                    f = [g for k, g in enumerate(f) if k not in (i1, i2)] + [("delta", (a[0], c[0]))]
                    changed = True
                    break
                if changed:
                    break
            if changed:
                break
        if changed:
            continue
        # ---- general inverse pairs (no symmetry): (M1 M2)[a,c] with M1, M2 = W, GInv(W) in either order -> delta[a,c]
        for i1, (h1, x1) in enumerate(f):
            p = ST.gpair.get(h1)
            if p is None or len(x1) < 2:
                continue
            for i2, (h2, x2) in enumerate(f):
                if i2 == i1 or h2 != p or len(x2) != len(x1) or x1[:-2] != x2[:-2]:
                    continue
                s_ = x1[-1]
                if s_ == x2[-2] and s_ not in free and cnt[s_] == 2 and x1[-2] != s_ and x2[-1] != s_:
                    f = [g for k, g in enumerate(f) if k not in (i1, i2)] + [("delta", (x1[-2], x2[-1]))]
                    changed = True
                    break
            if changed:
                break
        if changed:
            continue
        # ---- Cholesky axiom  L L' = X:  Chol(X)[.., a, s] Chol(X)[.., b, s] (column index summed, used nowhere else) -> X[.., a, b]
        for i1, (h1, x1) in enumerate(f):
            if H[h1].kind != "Chol" or len(x1) < 2:
                continue
            s_ = x1[-1]
            if s_ in free or cnt[s_] != 2:
                continue
            for i2, (h2, x2) in enumerate(f):
                if i2 <= i1 or h2 != h1 or x2[:-2] != x1[:-2] or x2[-1] != s_ or x2[-2] == s_ or x1[-2] == s_:
                    continue
                info = H[h1]
                m = dict(zip(info.bslots, x1[:-2]))
                m[info.mslots[0]], m[info.mslots[1]] = x1[-2], x2[-2]
                if len(info.arg[1]) != 1:
                    break                                     # X a sum: leave the product opaque
                ca, na = info.arg[1][0]
                for y in na.vars():
                    if y not in m:
                        m[y] = fresh(ST.size[y], "q")
                coef = coef * ca
                f = [g for k, g in enumerate(f) if k not in (i1, i2)] + list(na.rename(m).f)
                changed = True
                break
            if changed:
                break
        if changed:
            continue
        # ---- diagonal heads  h[...,a,b] -> vec[...,a] delta[a,b]
        for k, (h, ix) in enumerate(f):
            if h in ST.diag:
                f[k] = (ST.diag[h], ix[:-1])
                f.append(("delta", (ix[-2], ix[-1])))
                changed = True
                break
        if changed:
            continue
        # ---- reciprocal:  Recip(X)[..] * X[..] -> 1   (X a single head)
        for i1, (h1, x1) in enumerate(f):
            info = H[h1]
            if info.kind != "Recip":
                continue
            arg = info.arg[1]
            if len(arg) != 1 or not arg[0][0].is_one() or len(arg[0][1].f) != 1:
                continue
            h2, sx2 = arg[0][1].f[0]
            m = dict(zip(info.bslots, x1))
            if any(x not in m for x in sx2):
                continue
            want = tuple(m[x] for x in sx2)
            for i2, (hh, xx) in enumerate(f):
                if i2 != i1 and hh == h2 and (xx == want or (H[h2].sym and len(xx) >= 2 and xx[:-2] + (xx[-1], xx[-2]) == want)):
                    f = [g for k, g in enumerate(f) if k not in (i1, i2)]
                    still = {j for _, jx in f for j in jx}
                    for j in set(x1) | set(xx):
                        if j not in free and j not in still:
                            coef = coef * ST.size[j]      # a summed index whose summand became 1
                    changed = True
                    break
            if changed:
                break
        if changed:
            continue
        # ---- sqrt(X) * sqrt(X) -> X   (X a single head)
        for i1, (h1, x1) in enumerate(f):
            if H[h1].kind != "Sqrt":
                continue
            for i2, (h2, x2) in enumerate(f):
                if i2 > i1 and h2 == h1 and x2 == x1:
                    arg = H[h1].arg[1]
                    if len(arg) == 1 and arg[0][0].is_one():
                        m = dict(zip(H[h1].bslots, x1))
                        for _, jx in arg[0][1].f:
                            for y in jx:
                                if y not in m:
                                    m[y] = fresh(ST.size[y], "q")      # summed index inside the argument
                        f = [g for k, g in enumerate(f) if k not in (i1, i2)] + [(hh, tuple(m[y] for y in jx)) for hh, jx in arg[0][1].f]
                        changed = True
                    break
            if changed:
                break
        if changed:
            continue
        # ---- embeddings
        for i1, (h1, x1) in enumerate(f):
            if H[h1].kind != "E":
                continue
            v = x1[0]
            if v in free or cnt[v] != 2:
                continue
            for i2, (h2, x2) in enumerate(f):
                if i2 <= i1 or H[h2].kind != "E" or x2[0] != v:
                    continue
                rel = _seg_relation(h1, h2)
                if rel == "same":
                    rest = [g for k, g in enumerate(f) if k not in (i1, i2)]
                    if len(x1) == 2:
                        rest.append(("delta", (x1[1], x2[1])))
                    f = rest
                    changed = True
                elif rel == "disjoint":
                    return None
                break
            if changed:
                break
        if changed:
            continue
        # ---- composition of embeddings:  sum_a E:o1|l1|t1[i,a] E:o2|l2|l1[a,b] = E:o1+o2|l2|t1[i,b]
        for i1, (h1, x1) in enumerate(f):
            if H[h1].kind != "E" or len(x1) != 2:
                continue
            a_ = x1[1]
            if a_ in free or cnt[a_] != 2:
                continue
            for i2, (h2, x2) in enumerate(f):
                if i2 == i1 or H[h2].kind != "E" or x2[0] != a_:
                    continue
                o1, l1, t1 = H[h1].extra
                o2, l2, t2 = H[h2].extra
                if t2 != l1:
                    continue
                hn = seg_head(o1 + o2, l2, t1)
                f = [g for k, g in enumerate(f) if k not in (i1, i2)] + [(hn, (x1[0],) + tuple(x2[1:]))]
                changed = True
                break
            if changed:
                break
        if changed:
            continue
        # ---- a lone embedding whose large index is summed:  sum_i E[i,a] = 1  for every a
        for i1, (h1, x1) in enumerate(f):
            if H[h1].kind != "E":
                continue
            v = x1[0]
            if v in free or cnt[v] != 1:
                continue
            del f[i1]
            if len(x1) == 2 and x1[1] not in free and cnt[x1[1]] == 1:
                coef = coef * ST.size[x1[1]]
            changed = True
            break
        if changed:
            continue
        # ---- two embeddings sharing a large index that stays (free, or used elsewhere): E[i,a] E[i,b] = E[i,a] delta[a,b]; disjoint -> 0
        for i1, (h1, x1) in enumerate(f):
            if H[h1].kind != "E":
                continue
            v = x1[0]
            if v not in free and cnt[v] == 2:
                continue
            for i2, (h2, x2) in enumerate(f):
                if i2 <= i1 or H[h2].kind != "E" or x2[0] != v:
                    continue
                rel = _seg_relation(h1, h2)
                if rel == "same":
                    rest = [g for k, g in enumerate(f) if k != i2]
                    if len(x1) == 2:
                        rest.append(("delta", (x1[1], x2[1])))
                    f = rest
                    changed = True
                elif rel == "disjoint":
                    return None
                if changed:
                    break
            if changed:
                break
        if changed:
            continue
        # ---- selections (one-hot rows)
        for i1, (h1, x1) in enumerate(f):
            if H[h1].kind != "Sel":
                continue
            if len(x1) == 2:
                w, v = x1
            else:
                w, v = None, x1[0]
            if v not in free and cnt[v] == 1:
                del f[i1]           # sum over a one-hot row is 1
                changed = True
                break
            if H[h1].extra in ("perm", "inj") and w is not None:
                # distinct indices: two rows of the selection that hit the same position are the same row
                hit = False
                for i2, (h2, x2) in enumerate(f):
                    if i2 <= i1 or h2 != h1 or len(x2) != 2 or x2[1] != v or x2[0] == w:
                        continue
                    if H[h1].extra == "perm" and v not in free and cnt[v] == 2:
                        continue          # P P' = I below
                    f = [g for k, g in enumerate(f) if k != i2] + [("delta", (w, x2[0]))]
                    changed = hit = True
                    break
                if hit:
                    break
            if H[h1].extra == "perm" and w is not None:
                if w not in free and cnt[w] == 1:
                    del f[i1]       # permutation: columns sum to one as well
                    changed = True
                    break
                done = False
                for i2, (h2, x2) in enumerate(f):
                    if i2 <= i1 or h2 != h1 or len(x2) != 2 or x2[1] != v or x2[0] == w:
                        continue
                    if v not in free and cnt[v] == 2:
                        f = [g for k, g in enumerate(f) if k not in (i1, i2)] + [("delta", (w, x2[0]))]   # P P' = I
                        changed = done = True
                        break
                if done:
                    break
                for i2, (h2, x2) in enumerate(f):
                    if i2 <= i1 or h2 != h1 or len(x2) != 2 or x2[0] != w or x2[1] == v:
                        continue
                    if w not in free and cnt[w] == 2:
                        f = [g for k, g in enumerate(f) if k not in (i1, i2)] + [("delta", (v, x2[1]))]   # P' P = I
                        changed = done = True
                        break
                if done:
                    break
            for i2, (h2, x2) in enumerate(f):
                if i2 <= i1 or h2 != h1 or len(x2) != len(x1):
                    continue
                if len(x1) == 2 and x2[0] != w:
                    continue
                v2 = x2[-1]
                if v2 == v:
                    del f[i2]       # idempotent
                    changed = True
                    break
                src = tgt = None
                if v2 not in free:
                    src, tgt = v2, v
                elif v not in free:
                    src, tgt = v, v2
                if src is None:
                    continue
                del f[i2]
                f = [(hh, tuple(tgt if x == src else x for x in ii)) for hh, ii in f]
                changed = True
                break
            if changed:
                break
        if not changed:
            # ---- delta between two free variables: the other factors may use either one; pick a canonical one
            for k, (h, ix) in enumerate(f):
                if h == "delta" and ix[0] != ix[1] and ix[0] in free and ix[1] in free:
                    lo, hi = sorted(ix, key=lambda x: (len(x), x))
                    if any(hi in jx for q, (hh, jx) in enumerate(f) if q != k):
                        f = [(hh, (tuple(lo if x == hi else x for x in jx) if q != k else jx)) for q, (hh, jx) in enumerate(f)]
                        changed = True
                        break
        if not changed:
            break
    return coef, Net(f)


def _variants(h, ix):
    yield ix
    if len(ix) >= 2 and ST.head[h].sym and ix[-1] != ix[-2]:
        yield ix[:-2] + (ix[-1], ix[-2])


def _refine(f, free):
    """colour refinement (two rounds) of the factor graph: a cheap isomorphism invariant per factor."""
    H = ST.head
    inc = {}
    for h, ix in f:
        sym_ = len(ix) >= 2 and H[h].sym
        for p, x in enumerate(ix):
            pos = p if not (sym_ and p >= len(ix) - 2) else -1
            inc.setdefault(x, []).append((h, pos))
    vt = {x: (("F", x) if x in free else ("B", tuple(sorted(v)))) for x, v in inc.items()}

    def fsig(h, ix, vt):
        t = [vt[x] for x in ix]
        if len(ix) >= 2 and H[h].sym:
            t = t[:-2] + sorted(t[-2:])
        return (h, tuple(t))
    s1 = [fsig(h, ix, vt) for h, ix in f]
    # second round: a variable is characterised by the signatures of the factors it touches
    inc2 = {}
    for (h, ix), sg in zip(f, s1):
        for x in ix:
            inc2.setdefault(x, []).append(sg)
    vt2 = {x: (("F", x) if x in free else ("B", tuple(sorted(map(repr, v))))) for x, v in inc2.items()}
    return [fsig(h, ix, vt2) for h, ix in f]


def iso(n1, n2, free):
    if ST.ambient:
        free = set(free) | ST.ambient
    f1 = list(n1.f)
    f2 = list(n2.f)
    if len(f1) != len(f2):
        return False
    if sorted((h, len(i)) for h, i in f1) != sorted((h, len(i)) for h, i in f2):
        return False
    ST.stats["iso"] += 1
    if len(f1) > 3:
        g1, g2 = _refine(f1, free), _refine(f2, free)
        r1, r2 = sorted(map(repr, g1)), sorted(map(repr, g2))
        if r1 != r2:
            return False
        sig1 = [repr(x) for x in g1]
        sig2 = [repr(x) for x in g2]
        cnt = Counter(sig1)
        order = sorted(range(len(f1)), key=lambda k: (cnt[sig1[k]], sig1[k]))
        f1 = [f1[k] for k in order]
        sig1 = [sig1[k] for k in order]
    else:
        hc = Counter(h for h, _ in f1)
        f1.sort(key=lambda g: (hc[g[0]], g[0]))
        sig1 = sig2 = None

    def rec(k, used, m, mi):
        if k == len(f1):
            return True
        h, ix = f1[k]
        for j, (h2, ix2) in enumerate(f2):
            if j in used or h2 != h or len(ix2) != len(ix):
                continue
            if sig1 is not None and sig2[j] != sig1[k]:
                continue
            for v in _variants(h2, ix2):
                ok = True
                added = []
                for a, b in zip(ix, v):
                    fa, fb = a in free, b in free
                    if fa or fb:
                        if a != b:
                            ok = False
                            break
                        continue
                    if a in m:
                        if m[a] != b:
                            ok = False
                            break
                    elif b in mi:
                        ok = False
                        break
                    else:
                        m[a] = b
                        mi[b] = a
                        added.append((a, b))
                if ok and rec(k + 1, used | {j}, m, mi):
                    return True
                for a, b in added:
                    del m[a]
                    del mi[b]
        return False

    return rec(0, frozenset(), {}, {})


def _net_sig(n):
    return tuple(sorted((h, len(ix)) for h, ix in n.f))


def _normalize_terms0(terms, free):
    buckets = {}
    order = []
    for c, n in terms:
        r = simplify(c, n, free)
        if r is None:
            continue
        c, n = r
        if c.is_zero():
            continue
        sig = _net_sig(n)
        lst = buckets.setdefault(sig, [])
        for b in lst:
            if iso(b[1], n, free):
                b[0] = b[0] + c
                break
        else:
            e = [c, n]
            lst.append(e)
            order.append(e)
    return [(c, n) for c, n in order if not c.is_zero()]


def _match_subnet(pattern, factors, m, used, exclusive_ok):
    """backtracking: map every factor of `pattern` (list of (h, ix)) to a distinct unused factor of `factors`
    extending variable map m (pattern var -> term var).  Yields (m, used)."""
    if not pattern:
        yield m, used
        return
    (h, ix), rest = pattern[0], pattern[1:]
    for j, (h2, ix2) in enumerate(factors):
        if j in used or h2 != h or len(ix2) != len(ix):
            continue
        for v in _variants(h2, ix2):
            mm = dict(m)
            inv = {b: a for a, b in mm.items()}
            ok = True
            for a, b in zip(ix, v):
                if a in mm:
                    if mm[a] != b:
                        ok = False
                        break
                elif b in inv:
                    ok = False
                    break
                else:
                    mm[a] = b
                    inv[b] = a
            if ok:
                yield from _match_subnet(rest, factors, mm, used | {j}, exclusive_ok)


def _absorb_inverse(terms, free):
    """rule 3 for hash-consed inverses:  Inv(X)[..,a,s] * X[..,s,c] -> delta[a,c]  where X = sum_t c_t X_t is the
    (value-numbered) argument of the Inv head; the summands may be spread over several terms with a common rest."""
    H = ST.head
    changed = False
    cands = {}      # key -> {t: (term index, ratio)}
    for ti, (c, n) in enumerate(terms):
        cnt = Counter(i for _, ix in n.f for i in ix)
        for fi, (h, ix) in enumerate(n.f):
            info = H[h]
            if info.kind != "Inv" or len(ix) < 2:
                continue
            arg = info.arg[1]
            for spos in (-1, -2):
                s_, a_ = ix[spos], ix[-1 if spos == -2 else -2]
                others = [g for k, g in enumerate(n.f) if k != fi]
                # diagonal summands  X_t = d[..,m] delta[m1,m2]:  Inv[a,c] d[c] is (Inv X_t)[a,c] with the delta already contracted
                for t, (ct, nt_) in enumerate(arg):
                    dl = [g for g in nt_.f if g[0] == "delta" and set(g[1]) == set(info.mslots)]
                    if len(dl) != 1 or s_ == a_:
                        continue
                    pat = [g for g in nt_.f if g is not dl[0]]
                    m0 = dict(zip(info.bslots, ix[:-2]))
                    m0[info.mslots[0]] = s_
                    pat = [(hh, tuple(info.mslots[0] if x == info.mslots[1] else x for x in jx)) for hh, jx in pat]
                    for mm, used in _match_subnet(pat, others, m0, frozenset(), None):
                        rest = [g for k, g in enumerate(others) if k not in used]
                        restnet = Net(rest + [("@a", (a_,)), ("@c", (s_,))])
                        key = (h, tuple(sorted(_net_sig(restnet))))
                        cands.setdefault(key, []).append((t, ti, c / ct, restnet, a_, s_))
                        break
                if s_ in free or s_ == a_:
                    continue
                for t, (ct, nt_) in enumerate(arg):
                    base = dict(zip(info.bslots, ix[:-2]))
                    for (m1, m2) in ((info.mslots[0], info.mslots[1]), (info.mslots[1], info.mslots[0])):
                        m0 = dict(base)
                        m0[m1] = s_
                        for mm, used in _match_subnet(list(nt_.f), others, m0, frozenset(), None):
                            if m2 not in mm:
                                # pattern term does not mention the second matrix slot (e.g. delta-free scalar): skip
                                continue
                            c_ = mm[m2]
                            # bound variables of the pattern must map to variables used only inside the matched factors
                            pat_bound = [x for x in mm if x not in info.bslots and x not in info.mslots]
                            rest = [g for k, g in enumerate(others) if k not in used]
                            rest_vars = {j for _, jx in rest for j in jx}
                            if any(mm[x] in rest_vars or mm[x] in free for x in pat_bound):
                                continue
                            if s_ in rest_vars:
                                continue        # the contracted index is also used outside Inv(X) X (not a plain matrix product)
                            if c_ == s_:
                                continue
                            restnet = Net(rest + [("@a", (a_,)), ("@c", (c_,))])
                            key = (h, tuple(sorted(_net_sig(restnet))))
                            cands.setdefault(key, []).append((t, ti, c / ct, restnet, a_, c_))
                            break
                        else:
                            continue
                        break
    if "@a" not in H:
        H["@a"] = HeadInfo("marker")
        H["@c"] = HeadInfo("marker")
    for key, lst in cands.items():
        h = key[0]
        arg = H[h].arg[1]
        need = set(range(len(arg)))
        # group entries by ratio and by rest (iso, with the open ends a / c marked)
        groups = []
        for t, ti, ratio, restnet, a_, c_ in lst:
            for g in groups:
                if g["ratio"] == ratio and iso(g["rest"], restnet, free):
                    if t not in g["have"]:
                        g["have"][t] = ti
                    break
            else:
                groups.append(dict(ratio=ratio, rest=restnet, have={t: ti}, a=a_, c=c_))
        for g in groups:
            if set(g["have"]) == need and len(set(g["have"].values())) == len(need):
                kill = set(g["have"].values())
                newt = [(c, n) for k, (c, n) in enumerate(terms) if k not in kill]
                keep = tuple(q for q in g["rest"].f if q[0] not in ("@a", "@c"))
                newt.append((g["ratio"], Net(keep + (("delta", (g["a"], g["c"])),))))
                return newt, True
    return terms, False


def _absorb_recip(terms, free):
    """scalar analogue of _absorb_inverse:  Recip(X)[..] * X[..] -> 1  for a value-numbered sum X = sum_t c_t X_t whose summands are
    spread over several terms with a common cofactor (e.g. det * (1/det) with det = ad - bc)."""
    H = ST.head
    cands = {}
    for ti, (c, n) in enumerate(terms):
        for fi, (h, ix) in enumerate(n.f):
            info = H[h]
            if info.kind != "Recip" or len(info.arg[1]) < 2:
                continue
            others = [g for k, g in enumerate(n.f) if k != fi]
            m0 = dict(zip(info.bslots, ix))
            for t, (ct, nt_) in enumerate(info.arg[1]):
                for mm, used in _match_subnet(list(nt_.f), others, dict(m0), frozenset(), None):
                    pat_bound = [x for x in mm if x not in info.bslots]
                    rest = [g for k, g in enumerate(others) if k not in used]
                    rest_vars = {j for _, jx in rest for j in jx}
                    if any(mm[x] in rest_vars or mm[x] in free for x in pat_bound):
                        continue
                    restnet = Net(rest + [("@r", tuple(ix))])
                    key = (h, tuple(sorted(_net_sig(restnet))))
                    cands.setdefault(key, []).append((t, ti, c / ct, restnet))
                    break
    if "@r" not in H:
        H["@r"] = HeadInfo("marker")
    for key, lst in cands.items():
        h = key[0]
        need = set(range(len(H[h].arg[1])))
        groups = []
        for t, ti, ratio, restnet in lst:
            for g in groups:
                if g["ratio"] == ratio and iso(g["rest"], restnet, free):
                    if t not in g["have"] and ti not in g["have"].values():
                        g["have"][t] = ti
                    break
            else:
                groups.append(dict(ratio=ratio, rest=restnet, have={t: ti}))
        for g in groups:
            if set(g["have"]) == need and len(set(g["have"].values())) == len(need):
                kill = set(g["have"].values())
                newt = [(c, n) for k, (c, n) in enumerate(terms) if k not in kill]
                keep = tuple(q for q in g["rest"].f if q[0] != "@r")
                # indices of the Recip head that no other factor uses and that are summed contribute their size
                mark = [q for q in g["rest"].f if q[0] == "@r"][0][1]
                used_vars = {j for _, jx in keep for j in jx}
                coef = g["ratio"]
                for j in set(mark):
                    if j not in free and j not in used_vars:
                        coef = coef * ST.size[j]
                newt.append((coef, Net(keep)))
                return newt, True
    return terms, False


def normalize_terms(terms, free, _absorb=True):
    out = _normalize_terms0(terms, free)
    if _absorb and any(ST.head[h].kind == "Inv" for _, n in out for h, _ in n.f):
        for _ in range(40):
            out2, ch = _absorb_inverse(out, set(free))
            if not ch:
                break
            out = _normalize_terms0(out2, free)
    if _absorb and any(ST.head[h].kind == "Recip" and len(ST.head[h].arg[1]) > 1 for _, n in out for h, _ in n.f):
        for _ in range(60):
            out2, ch = _absorb_recip(out, set(free))
            if not ch:
                break
            out = _normalize_terms0(out2, free)
    return out


def normalize(v):
    return normalize_terms(v.terms, allfree(v))


def terms_equal(t1, t2, free):
    if len(t1) != len(t2):
        return False
    rest = list(t2)
    for c, n in t1:
        for k, (c2, n2) in enumerate(rest):
            if c == c2 and _net_sig(n) == _net_sig(n2) and iso(n, n2, free):
                del rest[k]
                break
        else:
            return False
    return not rest


def rename_onto(v2, v1, what="compare"):
    """rename v2's free vars onto v1's by axis position (axis structures must agree)."""
    if len(v1.axes) != len(v2.axes):
        raise ShapeError(f"{what}: rank {len(v1.axes)} vs {len(v2.axes)}")
    m = {}
    for k, (a, b) in enumerate(zip(v1.axes, v2.axes)):
        if len(a) != len(b) or any(ST.size[x] != ST.size[y] for x, y in zip(a, b)):
            if axsize(a) == axsize(b):
                raise LayoutError(f"{what}: axis {k} enumerates components as {[str(ST.size[x]) for x in a]} vs {[str(ST.size[y]) for y in b]}")
            raise ShapeError(f"{what}: axis {k} has size {axsize(a)} vs {axsize(b)}")
        for x, y in zip(a, b):
            m[y] = x
    return Val(v1.axes, [(c, n.rename(m)) for c, n in v2.terms])


def diff(v1, v2, what="compare"):
    """returns list of differences (empty = equal). v1 = implementation, v2 = reference."""
    v1, v2 = as_val(v1), as_val(v2)
    v2 = rename_onto(v2, v1, what)
    free = allfree(v1)
    t1 = normalize(v1)
    rest = normalize(v2)
    diffs = []
    for c, n in t1:
        for k, (c2, n2) in enumerate(rest):
            if _net_sig(n) == _net_sig(n2) and iso(n, n2, free):
                if c != c2:
                    diffs.append(("coef", show_coef(c), show_coef(c2), show_net(n, v1)))
                del rest[k]
                break
        else:
            diffs.append(("only_impl", show_coef(c), show_net(n, v1)))
    for c2, n2 in rest:
        diffs.append(("only_spec", show_coef(c2), show_net(n2, v1)))
    if diffs and len(diffs) <= 40:
        # the two sides may differ in form only across terms (e.g.  x  vs  Inv(X) X x ): normalise the difference as a whole
        try:
            if not normalize(add(v1, v2, -1)):
                return []
        except (ShapeError, LayoutError):
            pass
    return diffs


def is_zero(v):
    return not normalize(v)


# ---------------------------------------------------------------------------------- printing

def show_coef(c):
    return repr(c)


def show_net(n, val=None):
    names = {}
    if val is not None:
        letters = "ijklmnopqrstuvw"
        k = 0
        for ai, a in enumerate(val.axes):
            for x in a:
                names[x] = f"{letters[k % len(letters)]}{'' if k < len(letters) else k}"
                k += 1
    bn = 0
    out = []
    for h, ix in n.f:
        jj = []
        for i in ix:
            if i not in names:
                names[i] = f"_{bn}"
                bn += 1
            jj.append(names[i])
        out.append(f"{h}[{','.join(jj)}]")
    return " ".join(out) or "1"


def show(v, maxterms=12):
    v = as_val(v)
    nt = normalize(v)
    s = [f"shape={[str(x) for x in v.shape]} layout={[[str(ST.size[x]) for x in a] for a in v.axes]}"]
    for c, n in nt[:maxterms]:
        s.append(f"  ({show_coef(c)}) * {show_net(n, v)}")
    if len(nt) > maxterms:
        s.append(f"  ... {len(nt) - maxterms} more terms")
    if not nt:
        s.append("  0")
    return "\n".join(s)


def heads_used(v):
    hs = set()
    for _, n in v.terms:
        for h, _ in n.f:
            hs.add(h)
    return hs


# ------------------------------------------------------------------- rational extension (rule 8)

def zero_mod_recip(v, depth=0):
    """True if v == 0 after clearing reciprocal heads: write v = sum_p rho^p * N_p and test sum_p N_p d^(m-p) == 0
    where rho = Recip(d).  Sound for proving equalities (d is a definite polynomial NF)."""
    v = as_val(v)
    nt = normalize(v)
    if not nt:
        return True
    if depth > 4:
        return False
    free = allfree(v)
    rhos = sorted({h for _, n in nt for h, _ in n.f if ST.head[h].kind == "Recip"})
    if not rhos:
        return False
    rho = rhos[0]
    T = None
    counts = []
    for c, n in nt:
        k = 0
        for h, ix in n.f:
            if h == rho:
                if any(x not in free for x in ix):
                    return False
                if T is None:
                    T = ix
                elif T != ix:
                    return False
                k += 1
        counts.append(k)
    m = max(counts)
    dterms = head_arg_val(rho, T, v.axes).terms
    dval = Val(v.axes, dterms)
    total = None
    for (c, n), k in zip(nt, counts):
        t = Val(v.axes, [(c, Net([g for g in n.f if g[0] != rho]))])
        for _ in range(m - k):
            t = mul(t, dval)
        total = t if total is None else add(total, t)
    return zero_mod_recip(total, depth + 1) if any(ST.head[h].kind == "Recip" for _, n in normalize(total) for h, _ in n.f) else not normalize(total)


def partition_identity(prod, ax=-2):
    """identity matrix written in the block structure (embedding segments) that `prod` uses on its matrix axes."""
    nd = len(prod.axes)
    a = prod.axes[nd - 2]
    if len(a) != 1:
        return None
    i = a[0]
    segs = set()
    for c, n in normalize(prod):
        for h, ix in n.f:
            if ST.head[h].kind == "E" and ix[0] == i:
                segs.add(h)
    if not segs:
        return None
    infos = sorted((ST.head[h].extra for h in segs), key=lambda e: (len(repr(e[0])), repr(e[0])))
    tot = infos[0][2]
    # order by chaining offsets from 0
    chain, cur = [], D(0)
    rest = list(infos)
    while rest:
        nxt = [e for e in rest if e[0] == cur]
        if not nxt:
            return None
        chain.append(nxt[0])
        cur = cur + nxt[0][1]
        rest.remove(nxt[0])
    if cur != tot:
        return None
    out = None
    for off, ln, t in chain:
        blk = embed_axis(embed_axis(eye(ln), 0, off, tot), 1, off, tot)
        out = blk if out is None else add(out, blk)
    return out


# --------------------------------------------------------------------------------- stated axioms as substitutions
def subst_head_top(v, like, repl, what="axiom"):
    """Replace every top-level occurrence of the opaque head that the value `like` consists of (`like` normalises to one
    factor with coefficient one, e.g. Inv(Sigma_y) as produced by the analysed code) by the value `repl`, which has the
    same axes as `like`.  Used to apply a *stated* matrix identity (Woodbury, determinant lemma) whose left-hand side the
    rewrite system keeps opaque.  Occurrences inside arguments of other opaque heads are not touched."""
    like, repl = as_val(like), as_val(repl)
    nl = normalize(like)
    if len(nl) != 1 or not nl[0][0].is_one() or len(nl[0][1].f) != 1:
        raise Undecided(f"{what}: the left-hand side is not a single opaque head")
    hid, ix = nl[0][1].f[0]
    if len(like.axes) != len(repl.axes):
        raise ShapeError(f"{what}: ranks of the two sides differ")
    pos = {}
    for A, B in zip(like.axes, repl.axes):
        if axsize(A) != axsize(B):
            raise ShapeError(f"{what}: shapes of the two sides differ")
        if len(A) > 1 or len(B) > 1:
            raise Undecided(f"{what}: composite axis")
        if A and B:
            if A[0] not in ix:
                raise Undecided(f"{what}: axis of the left-hand side is not a slot of its head")
            pos[B[0]] = ix.index(A[0])
        elif A or B:
            raise Undecided(f"{what}: unit / non-unit axis mismatch")
    rterms = normalize(repl)
    terms = list(normalize(v))
    free = allfree(v)
    guard = 0
    while True:
        guard += 1
        if guard > 50:
            raise Undecided(f"{what}: substitution did not terminate")
        out, changed = [], False
        for c, n in terms:
            k = next((j for j, (h, _) in enumerate(n.f) if h == hid), None)
            if k is None:
                out.append((c, n))
                continue
            changed = True
            jx = n.f[k][1]
            rest = [g for j, g in enumerate(n.f) if j != k]
            for rc, rn in rterms:
                m = {x: jx[p] for x, p in pos.items()}
                for x in rn.vars():
                    if x not in m:
                        m[x] = fresh(ST.size[x], "w")
                out.append((c * rc, Net(rest + list(rn.rename(m).f))))
        terms = normalize_terms(out, free)
        if not changed:
            break
    return Val(v.axes, terms, kind=v.kind)


def _pivot_summand(info):
    """the summand of a hash-consed Inv argument X = sum_t c_t X_t that is eliminated by  c_0 X_0 Inv(X) = I - sum_{t>0} c_t X_t Inv(X):
    deterministic choice - fewest factors, then smallest signature; summands carrying an explicit delta of the two matrix slots are skipped."""
    best = None
    for t, (ct, nt_) in enumerate(info.arg[1]):
        if any(g[0] == "delta" and set(g[1]) == set(info.mslots) for g in nt_.f):
            continue
        key = (len(nt_.f), tuple(sorted(_net_sig(nt_))), repr(ct))
        if best is None or key < best[0]:
            best = (key, t)
    return None if best is None else best[1]


def eliminate_inverse(v, what="eliminate"):
    """Directed use of the defining relation of hash-consed inverses: for Inv(X), X = sum_t c_t X_t (value-numbered), every matrix product
    X_0 Inv(X) of the pivot summand with the inverse is rewritten to (I - sum_{t>0} c_t X_t Inv(X)) / c_0.  Terminating (the products it
    creates are not pivot products) and sound (X Inv(X) = I); makes differences vanish that the collecting rule (all summands present with
    a common cofactor) cannot see."""
    v = as_val(v)
    free = allfree(v)
    H = ST.head
    terms = normalize(v)
    for _ in range(400):
        hit = None
        for ti, (c, n) in enumerate(terms):
            for fi, (h, ix) in enumerate(n.f):
                info = H[h]
                if info.kind != "Inv" or len(ix) < 2 or len(info.arg[1]) < 2:
                    continue
                t0 = _pivot_summand(info)
                if t0 is None:
                    continue
                ct0, nt0 = info.arg[1][t0]
                others = [g for k, g in enumerate(n.f) if k != fi]
                base = dict(zip(info.bslots, ix[:-2]))
                for spos in (-1, -2):
                    s_, g_ = ix[spos], ix[-1 if spos == -2 else -2]
                    if s_ in free or s_ == g_:
                        continue
                    for (m1, m2) in ((info.mslots[0], info.mslots[1]), (info.mslots[1], info.mslots[0])):
                        m0 = dict(base)
                        m0[m1] = s_
                        for mm, used in _match_subnet(list(nt0.f), others, m0, frozenset(), None):
                            if m2 not in mm or mm[m2] == s_:
                                continue
                            a_ = mm[m2]
                            pat_bound = [x for x in mm if x not in info.bslots and x not in info.mslots]
                            rest = [g for k, g in enumerate(others) if k not in used]
                            rest_vars = {j for _, jx in rest for j in jx}
                            if any(mm[x] in rest_vars or mm[x] in free for x in pat_bound) or s_ in rest_vars:
                                continue
                            hit = (ti, c, rest, h, ix, info, t0, ct0, m1, m2, s_, a_, g_, base)
                            break
                        if hit:
                            break
                    if hit:
                        break
                if hit:
                    break
            if hit:
                break
        if hit is None:
            return Val(v.axes, terms, kind=v.kind)
        ti, c, rest, h, ix, info, t0, ct0, m1, m2, s_, a_, g_, base = hit
        new = [(c / ct0, Net(list(rest) + [("delta", (a_, g_))]))]
        for t, (ct, nt_) in enumerate(info.arg[1]):
            if t == t0:
                continue
            ren = dict(base)
            ren[m1], ren[m2] = s_, a_
            for x in nt_.vars():
                if x not in ren:
                    ren[x] = fresh(ST.size[x], "e")
            new.append((-(c / ct0) * ct, Net(list(rest) + list(nt_.rename(ren).f) + [(h, ix)])))
        terms = normalize_terms([t for k, t in enumerate(terms) if k != ti] + new, free)
    raise Undecided(f"{what}: elimination did not terminate")

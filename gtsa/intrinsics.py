"""Transfer functions for the third-party vocabulary the library uses (jax.numpy, jax.scipy, lax ...).

Each mirrors documented NumPy/JAX semantics on the abstract domain of nf.py.  An unknown callable raises
Undecided (never a violation).
"""
import ast
from fractions import Fraction
from . import nf
from .nf import Val, ShapeError, LayoutError, Undecided
from .dim import Dim, D, LOG2PI, LOG2, PI, dim_le


def _I():
    from . import interp
    return interp


# ----------------------------------------------------------------------------- name resolution

CANON = {
    "jax.numpy": "jnp", "jax.scipy": "jsc", "jax.lax": "lax", "jax.random": "random",
}

CONSTANTS = {
    "jax.numpy.pi": PI,
    "jax.numpy.inf": float("inf"),
    "jax.numpy.int32": "int32", "jax.numpy.int64": "int64", "jax.numpy.float64": "float64",
    "jax.numpy.newaxis": None,
    "math.pi": PI, "numpy.pi": PI, "math.inf": float("inf"), "numpy.inf": float("inf"), "numpy.newaxis": None,
}

ALIASES = {
    "jax.jit": "jax.jit", "jax.vmap": "jax.vmap",
    "jax.lax.scan": "jax.lax.scan",
}


def ext_attr(I, dotted):
    if dotted in CONSTANTS:
        return CONSTANTS[dotted]
    return _I().ExtRef(dotted)


def builtin(I, name):
    if name in ("True", "False", "None"):
        return {"True": True, "False": False, "None": None}[name]
    if name in BUILTINS:
        return _I().ExtRef("builtins." + name)
    if name in ("AssertionError", "RuntimeError", "ValueError", "NotImplementedError", "AttributeError", "TypeError", "Exception"):
        return _I().ExtRef("builtins." + name)
    if name == "Ellipsis":
        return Ellipsis
    import builtins as _b
    if hasattr(_b, name):
        # a real Python builtin without a model: the analysis is incomplete, the program is not wrong
        raise Undecided(f"python builtin `{name}` is not modelled")
    return None


# ----------------------------------------------------------------------------- helpers

def inf_val(sign, axes=()):
    if "Inf" not in nf.ST.head:
        nf.ST.head["Inf"] = nf.HeadInfo("Inf")
    return Val(list(axes), [(D(sign), nf.Net([("Inf", ())]))])


def inf_sign(v):
    """+1 / -1 if v is the constant array +inf / -inf, 0 if no Inf head occurs, None if Inf is mixed with other terms."""
    nt = nf.normalize(v)
    has = [(c, n) for c, n in nt if any(h == "Inf" for h, _ in n.f)]
    if not has:
        return 0
    if len(nt) == 1 and len(nt[0][1].f) == 1 and nt[0][0].is_const():
        return 1 if nt[0][0].value() > 0 else -1
    return None


def dominant_inf(v):
    """sign of the infinite part of  finite + c*Inf  (None if no / ambiguous)."""
    nt = nf.normalize(v)
    has = [(c, n) for c, n in nt if any(h == "Inf" for h, _ in n.f)]
    if len(has) == 1 and len(has[0][1].f) == 1 and has[0][0].is_const():
        return 1 if has[0][0].value() > 0 else -1
    return None


def _arr(x):
    if isinstance(x, Val):
        return x
    it = _I()
    if it.is_num(x):
        if isinstance(x, float) and x in (float("inf"), float("-inf")):
            return inf_val(1 if x > 0 else -1)
        return nf.const(x)
    if isinstance(x, bool):
        return nf.const(int(x))
    if isinstance(x, (list, tuple)):
        raise Undecided("python sequence as array")
    if isinstance(x, it.IdxArr):
        v = idx_to_val(x)
        if x.mesh is not None:
            pos, n = x.mesh
            v = nf.expand_dims(v, [None] * pos + ["k"] + [None] * (n - pos - 1))
        return v
    raise Undecided(f"{type(x).__name__} as array")


def _shape_arg(a):
    if isinstance(a, (list, tuple)):
        return [D(x) for x in a]
    return [D(a)]


def _axis(kw, args, pos, default=None):
    if "axis" in kw:
        return kw["axis"]
    if len(args) > pos:
        return args[pos]
    return default


def _int(x):
    if isinstance(x, int):
        return x
    if isinstance(x, Dim) and x.is_const() and x.value().denominator == 1:
        return int(x.value())
    raise Undecided("symbolic axis / integer argument")


def _log_const(c):
    """log of a positive constant q * PI^k (q rational): k (LOG2PI - LOG2) + sum_p e_p LOG<p> over the prime factorisation of q,
    with LOG2 / LOG2PI the two generators the library's own expressions use (ln pi = LOG2PI - LOG2)."""
    c = D(c)
    if len(c.t) != 1:
        raise Undecided(f"log of constant {c}")
    (mono, q), = c.t.items()
    if q <= 0 or any(m != "PI" for m in mono):
        raise Undecided(f"log of constant {c}")
    out = (LOG2PI - LOG2) * len(mono)
    for n, sgn in ((q.numerator, 1), (q.denominator, -1)):
        p = 2
        while n > 1 and p < 1000:
            while n % p == 0:
                out = out + (LOG2 if p == 2 else Dim.sym(f"LOG{p}")) * sgn
                n //= p
            p += 1
        if n > 1:
            raise Undecided(f"log of constant {c}")
    return out


INF_RULES = {"Phi": {1: 1, -1: 0}, "phi": {1: 0, -1: 0}, "Normpdf": {1: 0, -1: 0}, "Normcdf": {1: 1, -1: 0}, "Normlogcdf": {1: 0},
             "IsFinite": {1: 0, -1: 0}, "Exp": {-1: 0}, "Tanh": {1: 1, -1: -1}}


def elementwise_inf(kind, v):
    """nf.elementwise with the values at +-infinity of the functions the library applies to truncation limits."""
    v = _arr(v)
    sg = inf_sign(v)
    if sg is None:
        raise Undecided(f"{kind} of an expression mixing finite and infinite parts")
    if sg != 0:
        val = INF_RULES.get(kind, {}).get(sg)
        if val is None:
            raise Undecided(f"{kind} at {'+' if sg > 0 else '-'}infinity")
        return Val(v.axes, [(D(val), nf.Net())] if val else [])
    return nf.elementwise(kind, v)


def _elementwise(kind):
    def f(I, args, kw):
        x = args[0]
        if isinstance(x, Val) and inf_sign(x) != 0:
            return elementwise_inf(kind, x)
        if _I().is_num(x):
            if kind == "Log":
                return _log_const(x)
            if kind == "Exp" and D(x).is_zero():
                return D(1)
            if kind == "Sqrt" and D(x).is_const():
                v = D(x).value()
                import math
                r = Fraction(math.isqrt(v.numerator), math.isqrt(v.denominator))
                if r * r == v:
                    return D(r)
            x = nf.const(x)
        return nf.elementwise(kind, _arr(x))
    return f


# ----------------------------------------------------------------------------- jnp functions

def j_log1p(I, args, kw):
    x = args[0]
    if _I().is_num(x):
        return _log_const(D(x) + 1)
    return nf.elementwise("Log", nf.add(nf.const(1), _arr(x)))


def j_expm1(I, args, kw):
    return nf.add(nf.elementwise("Exp", _arr(args[0])), nf.const(-1))


def j_square(I, args, kw):
    return nf.mul(_arr(args[0]), _arr(args[0]))


def j_negative(I, args, kw):
    return nf.neg(_arr(args[0]))


def j_add(I, args, kw):
    return nf.add(_arr(args[0]), _arr(args[1]))


def j_subtract(I, args, kw):
    return nf.add(_arr(args[0]), _arr(args[1]), -1)


def j_multiply(I, args, kw):
    return array_binop(I, ast.Mult(), args[0], args[1])


def j_divide(I, args, kw):
    return array_binop(I, ast.Div(), args[0], args[1])


def j_matmul(I, args, kw):
    return array_binop(I, ast.MatMult(), args[0], args[1])


def j_transpose(I, args, kw):
    v = _arr(args[0])
    axes = args[1] if len(args) > 1 else kw.get("axes")
    if axes is None:
        return nf.transpose(v)
    axes = [nf._norm_axis(_int(a), len(v.axes)) for a in axes]
    return Val([v.axes[a] for a in axes], v.terms, kind=v.kind)


def j_expand_dims(I, args, kw):
    v = _arr(args[0])
    ax = _int(_axis(kw, args, 1))
    nd = len(v.axes) + 1
    ax = ax + nd if ax < 0 else ax
    return Val(v.axes[:ax] + [()] + v.axes[ax:], v.terms, kind=v.kind)


def j_broadcast_to(I, args, kw):
    v = _arr(args[0])
    shp = _shape_arg(args[1] if len(args) > 1 else kw["shape"])
    if len(shp) < len(v.axes):
        raise ShapeError("broadcast_to: target rank smaller than operand rank")
    v = Val([()] * (len(shp) - len(v.axes)) + list(v.axes), v.terms, kind=v.kind)
    reps = []
    for a, t in zip(v.axes, shp):
        if not a and not D(t).is_one():
            reps.append(D(t))
        elif nf.axsize(a) == D(t):
            reps.append(D(1))
        else:
            raise ShapeError(f"broadcast_to: cannot broadcast size {nf.axsize(a)} to {t}")
    return nf.tile(v, reps)


def j_zeros_like(I, args, kw):
    v = _arr(args[0])
    return Val(v.axes, [])


def j_ones_like(I, args, kw):
    v = _arr(args[0])
    return Val(v.axes, [(D(1), nf.Net())])


def j_repeat(I, args, kw):
    v = _arr(args[0])
    reps = args[1] if len(args) > 1 else kw["repeats"]
    ax = _axis(kw, args, 2)
    if ax is None:
        raise Undecided("repeat without axis")
    ax = nf._norm_axis(_int(ax), len(v.axes))
    # repeat = each element repeated consecutively: new axis variable is MINOR to the existing ones
    r = D(reps)
    axes = list(v.axes)
    axes[ax] = tuple(axes[ax]) + ((nf.fresh(r, "t"),) if not r.is_one() else ())
    return Val(axes, v.terms, kind=v.kind)


def j_einsum(I, args, kw):
    spec = args[0]
    if not isinstance(spec, str):
        raise Undecided("non-literal einsum spec")
    ops = [_arr(a) for a in args[1:]]
    spec = spec.replace(" ", "")
    ins, out = (spec.split("->") + [None])[:2] if "->" in spec else (spec, None)
    ins = ins.split(",")
    if len(ins) != len(ops):
        raise ShapeError(f"einsum '{spec}': {len(ins)} subscripts for {len(ops)} operands")
    # ellipsis -> explicit (upper-case) letters, right-aligned
    if any("..." in x for x in ins) or (out is not None and "..." in out):
        import string
        pool = [c for c in string.ascii_uppercase if c not in spec]
        nmax = 0
        new_ins = []
        for sub, v in zip(ins, ops):
            if "..." in sub:
                n = len(v.axes) - (len(sub) - 3)
                if n < 0:
                    raise ShapeError(f"einsum '{spec}': operand of rank {len(v.axes)} for subscript '{sub}'")
                nmax = max(nmax, n)
                new_ins.append((sub, n))
            else:
                new_ins.append((sub, None))
        ell = pool[:nmax]
        ins = [sub if n is None else sub.replace("...", "".join(ell[nmax - n:])) for sub, n in new_ins]
        if out is None:
            raise Undecided("implicit einsum output with an ellipsis")
        out = out.replace("...", "".join(ell))
    # repeated letters inside one operand: take the diagonal first
    for k, (sub, v) in enumerate(zip(ins, ops)):
        while len(set(sub)) != len(sub):
            ch = next(c for c in sub if sub.count(c) > 1)
            a1 = sub.index(ch)
            a2 = sub.index(ch, a1 + 1)
            v = nf.diagonal(v, a1, a2)                       # diagonal axis is appended last
            sub = "".join(c for j, c in enumerate(sub) if j not in (a1, a2)) + ch
        ins[k], ops[k] = sub, v
    if out is None:
        allc = "".join(ins)
        out = "".join(sorted(c for c in set(allc) if allc.count(c) == 1))
    return nf.einsum(",".join(ins) + "->" + out, *ops)


def j_tile(I, args, kw):
    reps = args[1] if len(args) > 1 else kw["reps"]
    if not isinstance(reps, (list, tuple)):
        reps = [reps]
    return nf.tile(_arr(args[0]), [D(r) for r in reps])


def j_reshape(I, args, kw):
    v = _arr(args[0])
    shp = args[1] if len(args) > 1 else kw.get("shape", kw.get("newshape"))
    return _reshape(v, shp)


def _reshape(v, shp):
    if not isinstance(shp, (list, tuple)):
        shp = [shp]
    return nf.reshape(v, [(-1 if (isinstance(x, int) and x == -1) else D(x)) for x in shp])


def j_take(I, args, kw):
    v = _arr(args[0])
    idx = args[1] if len(args) > 1 else kw["indices"]
    ax = _axis(kw, args, 2)
    if ax is None:
        raise Undecided("take without axis")
    mode = kw.get("mode")
    it = _I()
    if mode not in (None, "fill") and isinstance(idx, it.IdxArr) and idx.kind in ("generic", "perm"):
        # non-default out-of-bounds / negative-index semantics ("clip" clamps negative indices to 0, "wrap" wraps out-of-range ones):
        # a different selection than plain indexing x[idx]
        idx = it.IdxArr(f"{mode}:{idx.name}", idx.size, kind="generic")
    return _gather(v, _int(ax), idx)


def _gather(v, ax, idx):
    it = _I()
    if isinstance(idx, it.IdxArr):
        nd = len(v.axes)
        a = ax + nd if ax < 0 else ax
        if idx.kind == "arange":
            lo = idx.lo or D(0)
            return nf.slice_axis(v, a, lo, lo + idx.size)
        if idx.kind == "const":
            if len(idx.values) == 1:
                k = idx.values[0]
                return nf.slice_axis(v, a, k, D(k) + 1)
            raise Undecided("constant index list of length > 1")
        if idx.kind == "wrapneg":
            # numpy / jnp.take already count negative entries from the end: wrapping with the axis length is the same selection
            base, n = idx.parts
            if n == nf.axsize(v.axes[a]):
                return _gather(v, a, base)
            return nf.gather_axis(v, a, idx.name, idx.size)
        if idx.kind == "shift":
            return nf.gather_axis(v, a, idx.name, idx.size)
        if idx.kind == "compose":
            # x[g[s]] = (x[g])[s]
            return _gather(_gather(v, a, idx.parts[0]), a, idx.parts[1])
        return nf.gather_axis(v, a, idx.name, idx.size, perm=(idx.kind == "perm"), inverse=bool(idx.inverse), inj=bool(idx.distinct))
    raise Undecided(f"gather with {type(idx).__name__}")


def j_sum(I, args, kw):
    v = _arr(args[0])
    ax = _axis(kw, args, 1)
    kd = bool(kw.get("keepdims", False))
    if isinstance(ax, (tuple, list)):
        ax = [_int(a) for a in ax]
    elif ax is not None:
        ax = _int(ax)
    return nf.sum_axis(v, ax, kd)


def j_swapaxes(I, args, kw):
    v = _arr(args[0])
    a1 = kw.get("axis1", args[1] if len(args) > 1 else None)
    a2 = kw.get("axis2", args[2] if len(args) > 2 else None)
    nd = len(v.axes)
    return nf.swapaxes(v, nf._norm_axis(_int(a1), nd), nf._norm_axis(_int(a2), nd))


def j_diagonal(I, args, kw):
    v = _arr(args[0])
    a1 = _int(kw.get("axis1", args[2] if len(args) > 2 else 0))
    a2 = _int(kw.get("axis2", args[3] if len(args) > 3 else 1))
    return nf.diagonal(v, a1, a2)


def j_trace(I, args, kw):
    v = _arr(args[0])
    a1 = _int(kw.get("axis1", 0))
    a2 = _int(kw.get("axis2", 1))
    return nf.trace(v, a1, a2)


def j_dot(I, args, kw):
    x, y = _arr(args[0]), _arr(args[1])
    if len(x.axes) == 2 and len(y.axes) == 2:
        return nf.einsum("ab,bc->ac", x, y, what="dot")
    if len(x.axes) == 1 and len(y.axes) == 1:
        return nf.einsum("a,a->", x, y, what="dot")
    if len(x.axes) == 2 and len(y.axes) == 1:
        return nf.einsum("ab,b->a", x, y, what="dot")
    raise Undecided("dot of higher-rank operands")


def j_concatenate(I, args, kw):
    it = _I()
    if isinstance(args[0], it.SymList):
        # concatenation of the comprehension elements along `axis`: positions major, the element's own axis minor
        sl = args[0]
        v = sl.value
        if not isinstance(v, Val) or not v.axes:
            raise Undecided("concatenate of a comprehension with non-array elements")
        ax = nf._norm_axis(_int(_axis(kw, args, 1, 0)), len(v.axes))
        axes = list(v.axes)
        axes[ax] = tuple(sl.vars) + tuple(axes[ax])
        return Val(axes, v.terms, kind=v.kind)
    vals = [_arr(a) for a in args[0] if not isinstance(a, EmptyRows)]
    ax = _int(_axis(kw, args, 1, 0))
    return nf.concat(vals, ax)


def j_hstack(I, args, kw):
    vals = [_arr(a) for a in args[0]]
    if len(vals[0].axes) == 1:
        return nf.concat(vals, 0, what="hstack")
    return nf.concat(vals, 1, what="hstack")


def j_block(I, args, kw):
    a = args[0]

    def rec(x, depth):
        if isinstance(x, list):
            sub = [rec(y, depth + 1) for y in x]
            maxd = _depth(a)
            return nf.concat(sub, -(maxd - depth), what="block")
        return _arr(x)
    return rec(a, 0)


def _depth(x):
    return 1 + _depth(x[0]) if isinstance(x, list) else 0


def j_stack(I, args, kw):
    raise Undecided("stack")


def j_eye(I, args, kw):
    n = args[0]
    m = args[1] if len(args) > 1 else kw.get("M")
    return nf.eye(n, m)


def j_zeros(I, args, kw):
    return nf.zeros(_shape_arg(args[0] if args else kw["shape"]))


def j_empty(I, args, kw):
    return nf.zeros(_shape_arg(args[0] if args else kw["shape"]), uninit=True)


def j_ones(I, args, kw):
    return nf.ones(_shape_arg(args[0] if args else kw["shape"]))


def j_arange(I, args, kw):
    it = _I()
    if len(args) == 1:
        lo, hi = D(0), D(args[0])
    else:
        lo, hi = D(args[0]), D(args[1])
    return it.IdxArr(f"arange({lo},{hi})", hi - lo, kind="arange", lo=lo)


def j_array(I, args, kw):
    it = _I()
    x = args[0]
    if isinstance(x, it.SymList):
        return _symlist_val(x, 0)
    if isinstance(x, it.IdxArr):
        return x
    if isinstance(x, Val):
        return x
    if isinstance(x, (list, tuple)) and all(isinstance(q, int) for q in x):
        return it.IdxArr(f"const{list(x)}", len(x), kind="const", values=list(x))
    if it.is_num(x):
        return nf.const(x)
    raise Undecided("jnp.array of a python structure")


def j_where(I, args, kw):
    if len(args) != 3:
        raise Undecided("one-argument where")
    c, a, b = args
    it = _I()
    if isinstance(c, it.IdxMask):
        # where(idx < 0, idx + n, idx)  /  where(idx >= 0, idx, idx + n): negative entries count from the end of an axis of length n
        neg, pos = (a, b) if c.sense == "neg" else (b, a)
        if isinstance(neg, it.IdxArr) and neg.kind == "shift" and neg.parts[0] is c.base and pos is c.base:
            n = neg.parts[1]
            return it.IdxArr(f"wrapneg[{n}]:{c.base.name}", c.base.size, kind="wrapneg", parts=(c.base, n))
        raise Undecided("where on an index list that is not the negative-index wrap idiom")
    c = _arr(c)
    a, b = _where_operand(a), _where_operand(b)
    # where(c, a, b) = b + c * (a - b)  with c a 0/1 indicator
    if a == "inf" or b == "inf":
        raise Undecided("where with infinite branch")
    d = nf.add(a, b, -1)
    return nf.add(b, nf.mul(c, d))


def _where_operand(x):
    if isinstance(x, float) and x in (float("inf"), float("-inf")):
        return "inf"
    return _arr(x)


def j_maximum(I, args, kw):
    a, b = args
    it = _I()
    if it.is_num(b) and D(b).is_zero():
        return nf.elementwise("Relu", _arr(a))
    if it.is_num(a) and D(a).is_zero():
        return nf.elementwise("Relu", _arr(b))
    # max(a, b) = b + relu(a - b)   (exact; a floor `maximum(x, 1e-10)` is therefore a different function from x)
    a, b = _arr(a), _arr(b)
    return nf.add(b, nf.elementwise("Relu", nf.add(a, b, -1)))


def j_minimum(I, args, kw):
    # min(a, b) = b - relu(b - a)
    a, b = _arr(args[0]), _arr(args[1])
    return nf.add(b, nf.elementwise("Relu", nf.add(b, a, -1)), -1)


def j_clip(I, args, kw):
    """clip of an index array is a different selection (negative indices are clamped, not wrapped); clip of a tensor is an opaque
    elementwise head parameterised by the bounds"""
    it = _I()
    a = args[0]
    lo = args[1] if len(args) > 1 else kw.get("a_min", kw.get("min"))
    hi = args[2] if len(args) > 2 else kw.get("a_max", kw.get("max"))
    if isinstance(a, it.IdxArr):
        return it.IdxArr(f"clip[{lo},{hi}]:{a.name}", a.size, kind="generic")
    if (lo is None or it.is_num(lo)) and (hi is None or it.is_num(hi)):
        return nf.elementwise(f"Clip[{lo},{hi}]", _arr(a))
    raise Undecided("clip with array bounds")


def j_pad(I, args, kw):
    """zero padding: every axis is embedded at offset `before` in an axis of size before + size + after"""
    it = _I()
    v = _arr(args[0])
    pw = args[1] if len(args) > 1 else kw["pad_width"]
    mode = args[2] if len(args) > 2 else kw.get("mode", "constant")
    cv = kw.get("constant_values", 0)
    if mode != "constant" or not (it.is_num(cv) and D(cv).is_zero()):
        raise Undecided("pad with a mode / constant other than zero padding")
    nd = len(v.axes)
    if it.is_num(pw):
        pw = [(pw, pw)] * nd
    elif isinstance(pw, (tuple, list)) and len(pw) == 2 and all(it.is_num(x) for x in pw):
        pw = [tuple(pw)] * nd
    elif isinstance(pw, (tuple, list)) and len(pw) == 1 and isinstance(pw[0], (tuple, list)):
        pw = [tuple(pw[0])] * nd
    pw = [tuple(x) for x in pw]
    if len(pw) != nd or any(len(x) != 2 for x in pw):
        raise ShapeError(f"pad: pad_width {pw} does not match an array of rank {nd}")
    out = v
    for ax, (lo, hi) in enumerate(pw):
        lo, hi = D(lo), D(hi)
        if lo.is_zero() and hi.is_zero():
            continue
        out = nf.embed_axis(out, ax, lo, lo + out.shape[ax] + hi)
    return out


def _letters(n, skip=""):
    import string
    return [c for c in string.ascii_letters if c not in skip][:n]


def j_tensordot(I, args, kw):
    a, b = _arr(args[0]), _arr(args[1])
    axes = args[2] if len(args) > 2 else kw.get("axes", 2)
    na, nb = len(a.axes), len(b.axes)
    if isinstance(axes, int):
        ax_a, ax_b = list(range(na - axes, na)), list(range(axes))
    else:
        ax_a, ax_b = axes
        ax_a = [ax_a] if isinstance(ax_a, int) else list(ax_a)
        ax_b = [ax_b] if isinstance(ax_b, int) else list(ax_b)
    ax_a = [nf._norm_axis(_int(x), na) for x in ax_a]
    ax_b = [nf._norm_axis(_int(x), nb) for x in ax_b]
    if len(ax_a) != len(ax_b):
        raise ShapeError("tensordot: axes lists of different length")
    L = _letters(na + nb)
    la, lb = L[:na], L[na:na + nb]
    for x, y in zip(ax_a, ax_b):
        lb[y] = la[x]
    out = [la[k] for k in range(na) if k not in ax_a] + [lb[k] for k in range(nb) if k not in ax_b]
    return nf.einsum(f"{''.join(la)},{''.join(lb)}->{''.join(out)}", a, b, what="tensordot")


def j_inner(I, args, kw):
    a, b = _arr(args[0]), _arr(args[1])
    if not a.axes or not b.axes:
        return nf.mul(a, b)
    return j_tensordot(I, [a, b, ([len(a.axes) - 1], [len(b.axes) - 1])], {})


def j_vdot(I, args, kw):
    a, b = _arr(args[0]), _arr(args[1])
    if len(a.axes) != len(b.axes):
        raise Undecided("vdot of operands of different rank")
    out = nf.mul(a, b, what="vdot")
    return nf.sum_axis(out, None, False)


def j_outer(I, args, kw):
    a, b = _arr(args[0]), _arr(args[1])
    if len(a.axes) > 1 or len(b.axes) > 1:
        raise Undecided("outer of operands that are not 1-D (flattening)")
    a = a if a.axes else nf.expand_dims(a, [None])
    b = b if b.axes else nf.expand_dims(b, [None])
    return nf.mul(nf.expand_dims(a, ["k", None]), nf.expand_dims(b, [None, "k"]), what="outer")


def _perm_transpose(v, perm):
    """general transposition by successive swaps"""
    cur = list(range(len(v.axes)))
    out = v
    for pos, want in enumerate(perm):
        j = cur.index(want)
        if j != pos:
            out = nf.swapaxes(out, pos, j)
            cur[pos], cur[j] = cur[j], cur[pos]
    return out


def j_moveaxis(I, args, kw):
    v = _arr(args[0])
    src = args[1] if len(args) > 1 else kw["source"]
    dst = args[2] if len(args) > 2 else kw["destination"]
    src = [src] if isinstance(src, int) else list(src)
    dst = [dst] if isinstance(dst, int) else list(dst)
    nd = len(v.axes)
    src = [nf._norm_axis(_int(x), nd) for x in src]
    dst = [nf._norm_axis(_int(x), nd) for x in dst]
    order = [k for k in range(nd) if k not in src]
    for d, s_ in sorted(zip(dst, src)):
        order.insert(d, s_)
    return _perm_transpose(v, order)


def j_matrix_transpose(I, args, kw):
    v = _arr(args[0])
    if len(v.axes) < 2:
        raise ShapeError("matrix_transpose of an array of rank < 2")
    return nf.swapaxes(v, -1, -2)


def j_stack_general(I, args, kw):
    it = _I()
    if isinstance(args[0], it.SymList):
        return _symlist_val(args[0], _int(_axis(kw, args, 1, 0)))
    vals = [_arr(a) for a in args[0]]
    nd = len(vals[0].axes)
    ax = _int(_axis(kw, args, 1, 0))
    ax = ax + nd + 1 if ax < 0 else ax
    spec = ["k"] * nd
    spec.insert(ax, None)
    return nf.concat([nf.expand_dims(v, spec) for v in vals], ax, what="stack")


def _atleast_2d(v):
    if not v.axes:
        return nf.expand_dims(v, [None, None])
    if len(v.axes) == 1:
        return nf.expand_dims(v, [None, "k"])
    return v


def j_vstack(I, args, kw):
    return nf.concat([_atleast_2d(_arr(a)) for a in args[0] if not isinstance(a, EmptyRows)], 0, what="vstack")


def j_column_stack(I, args, kw):
    cols = []
    for a in args[0]:
        v = _arr(a)
        if len(v.axes) <= 1:
            v = nf.expand_dims(v if v.axes else nf.expand_dims(v, [None]), ["k", None])
        cols.append(v)
    return nf.concat(cols, 1, what="column_stack")


def j_atleast_2d(I, args, kw):
    return _atleast_2d(_arr(args[0]))


def j_atleast_1d(I, args, kw):
    v = _arr(args[0])
    return v if v.axes else nf.expand_dims(v, [None])


def j_power(I, args, kw):
    return array_binop(I, ast.Pow(), args[0], args[1])


def j_reciprocal(I, args, kw):
    return nf.elementwise("Recip", _arr(args[0]))


def j_mean(I, args, kw):
    v = _arr(args[0])
    ax = _axis(kw, args, 1)
    tot = j_sum(I, [v] + list(args[1:]), kw)
    nd = len(v.axes)
    if ax is None:
        axes = list(range(nd))
    elif isinstance(ax, (tuple, list)):
        axes = [nf._norm_axis(_int(a), nd) for a in ax]
    else:
        axes = [nf._norm_axis(_int(ax), nd)]
    n = D(1)
    for a in axes:
        n = n * v.shape[a]
    if n.is_const():
        return nf.scale(tot, D(1) / n)
    return nf.mul(tot, nf.elementwise("Recip", nf.const(n)))


def j_full(I, args, kw):
    shp = _shape_arg(args[0])
    c = args[1] if len(args) > 1 else kw["fill_value"]
    return nf.mul(nf.ones(shp), _arr(c)) if isinstance(c, Val) else nf.scale(nf.ones(shp), c)


def j_full_like(I, args, kw):
    v = _arr(args[0])
    c = args[1] if len(args) > 1 else kw["fill_value"]
    one = nf.add(nf.scale(v, 0), nf.const(1))
    return nf.mul(one, _arr(c)) if isinstance(c, Val) else nf.scale(one, c)


def j_diag(I, args, kw):
    v = _arr(args[0])
    if kw.get("k", 0) != 0 or len(args) > 1:
        raise Undecided("diag with an offset")
    if len(v.axes) == 1:
        e = nf.eye(v.shape[0])
        return nf.mul(nf.expand_dims(v, ["k", None]), e, what="diag")
    if len(v.axes) == 2:
        return nf.diagonal(v, 0, 1)
    raise ShapeError("diag of an array of rank > 2")


def f_partial(I, args, kw):
    it = _I()
    fn, pre, prekw = args[0], list(args[1:]), dict(kw)

    def call(*a, **k):
        kk = dict(prekw)
        kk.update(k)
        return I.call(fn, pre + list(a), kk)
    return it.PyCallable(call, "partial")


def _symlist_val(sl, pos):
    """the array whose axis `pos` enumerates the comprehension positions"""
    it = _I()
    v = sl.value
    if it.is_num(v):
        v = nf.const(v)
    if not isinstance(v, Val):
        raise Undecided("comprehension over a symbolic range with non-array elements")
    pos = pos if pos >= 0 else len(v.axes) + 1 + pos
    if not 0 <= pos <= len(v.axes):
        raise ShapeError("stack axis out of range")
    return Val(list(v.axes[:pos]) + [tuple(sl.vars)] + list(v.axes[pos:]), v.terms, kind=v.kind)


def b_sum(I, args, kw):
    it = _I()
    if isinstance(args[0], it.SymList):
        out = nf.sum_axis(_symlist_val(args[0], 0), 0, False)
        if len(args) > 1 or "start" in kw:
            out = nf.add(out, _arr(args[1] if len(args) > 1 else kw["start"]))
        return out
    items = list(args[0])
    acc = args[1] if len(args) > 1 else kw.get("start", 0)
    it = _I()
    for x in items:
        if isinstance(acc, Val) or isinstance(x, Val):
            acc = nf.add(_arr(acc), _arr(x))
        else:
            acc = acc + x
    return acc


def b_type(I, args, kw):
    it = _I()
    if len(args) == 1 and isinstance(args[0], it.Obj):
        return it.ClassRef(args[0].cls)
    raise Undecided("type() of a value that is not an analysed object")


def b_getattr(I, args, kw):
    it = _I()
    try:
        return I.getattr(args[0], args[1])
    except it.PyRaise as e:
        if e.exc == "AttributeError" and len(args) > 2:
            return args[2]
        raise


def b_hasattr(I, args, kw):
    it = _I()
    try:
        I.getattr(args[0], args[1])
        return True
    except it.PyRaise as e:
        if e.exc == "AttributeError":
            return False
        raise


def b_range(I, args, kw):
    it = _I()
    vals = []
    for a in args:
        if not (it.is_num(a) and D(a).is_const() and D(a).value().denominator == 1):
            if len(args) == 1 and it.is_num(a):
                return it.SymRange(a)
            if len(args) == 2 and it.is_num(args[0]) and D(args[0]).is_zero() and it.is_num(a):
                return it.SymRange(a)
            raise Undecided("range with symbolic bounds other than range(n)")
        vals.append(int(D(a).value()))
    return range(*vals)


def b_enumerate(I, args, kw):
    start = args[1] if len(args) > 1 else kw.get("start", 0)
    return [(start + k, x) for k, x in enumerate(I.concrete_iter(args[0]))]


def j_argsort(I, args, kw):
    """argsort of an index array of distinct entries is a permutation of its positions (an uninterpreted one: every permutation
    is realised by some index list); argsort of a permutation is its inverse; argsort of a sorted array is the identity."""
    it = _I()
    a = args[0]
    if not isinstance(a, it.IdxArr) or kw.get("axis") not in (None, 0, -1) or kw.get("descending"):
        raise Undecided("argsort of a non-index array")
    if a.kind == "arange":
        return it.IdxArr(f"arange(0,{a.size})", a.size, kind="arange", lo=D(0))
    if a.kind == "perm":
        return it.IdxArr(a.name, a.size, kind="perm", inverse=not a.inverse)
    if a.kind == "generic":
        return it.IdxArr(f"argsort({a.name})", a.size, kind="perm")
    raise Undecided(f"argsort of a {a.kind} index array")


def j_sort(I, args, kw):
    it = _I()
    a = args[0]
    if not isinstance(a, it.IdxArr):
        raise Undecided("sort of a non-index array")
    if a.kind == "arange":
        return a
    return _compose_idx(a, j_argsort(I, [a], {}))


def _compose_idx(g, s):
    """the index array g[s]"""
    it = _I()
    if not isinstance(s, it.IdxArr):
        raise Undecided("index array indexed by a non-index array")
    if s.kind == "arange" and (s.lo is None or D(s.lo).is_zero()) and s.size == g.size:
        return g
    if s.kind not in ("perm", "generic"):
        raise Undecided(f"index array indexed by a {s.kind} index array")
    return it.IdxArr(f"{g.name}[{'inv:' if s.inverse else ''}{s.name}]", s.size, kind="compose", parts=(g, s))


def j_max(I, args, kw):
    if _axis(kw, args, 1) is not None:
        raise Undecided("max over an axis")
    v = _arr(args[0])
    flat = nf.reshape(v, [_total(v)]) if v.axes else v
    return _reduce_all("Max", v)


def _total(v):
    t = D(1)
    for x in v.shape:
        t = t * x
    return t


def _reduce_all(kind, v):
    nt = nf.normalize(v)
    # full reduction: opaque scalar head depending on the whole argument; encoded with all axes consumed
    hid, order = nf._find_or_make(kind, nt, [x for x in v.free() if any(x in n.vars() for _, n in nt)], (), False)
    # the reduction binds all slots: represent as scalar head with no indices via a wrapper head
    wid = f"All{hid}"
    if wid not in nf.ST.head:
        nf.ST.head[wid] = nf.HeadInfo("Reduce")
    return Val([], [(D(1), nf.Net([(wid, ())]))])


def j_allclose(I, args, kw):
    """data-dependent predicates (allclose / array_equal / isclose().all() ...): an opaque 0-d boolean of the difference - using it in
    python control flow is what the trace-safety rule reports"""
    a, b = _arr(args[0]), _arr(args[1])
    r = _reduce_all("AllClose", nf.add(a, b, -1))
    r.kind = "bool"
    return r


def j_any(I, args, kw):
    v = _arr(args[0])
    if _axis(kw, args, 1) is not None:
        raise Undecided("any over an axis")
    r = _reduce_all("AnyTrue", v)
    r.kind = "bool"
    return r


def j_norm(I, args, kw):
    """vector 2-norm along an axis (ord=None): sqrt(sum x^2)"""
    v = _arr(args[0])
    if kw.get("ord") not in (None, 2) or len(args) > 1:
        raise Undecided("norm with ord")
    ax = kw.get("axis")
    sq = nf.mul(v, v)
    tot = nf.sum_axis(sq, None if ax is None else _int(ax), bool(kw.get("keepdims", False)))
    return nf.elementwise("Sqrt", tot)


def j_all(I, args, kw):
    v = _arr(args[0])
    ax = _axis(kw, args, 1)
    if ax is None:
        return _reduce_all("AllTrue", v)
    ax = nf._norm_axis(_int(ax), len(v.axes))
    if not v.axes[ax]:
        if kw.get("keepdims"):
            return Val(list(v.axes), v.terms, kind="bool")
        axes = [a for k, a in enumerate(v.axes) if k != ax]
        return Val(axes, v.terms, kind="bool")
    raise Undecided("all over a non-unit axis")


def j_logical_and(I, args, kw):
    r = nf.mul(_arr(args[0]), _arr(args[1]), what="logical_and")
    r.kind = "bool"
    return r


def j_logical_or(I, args, kw):
    a, b = _arr(args[0]), _arr(args[1])
    r = nf.add(nf.add(a, b), nf.mul(a, b), -1)
    r.kind = "bool"
    return r


def j_logical_not(I, args, kw):
    r = nf.add(nf.const(1), _arr(args[0]), -1)
    r.kind = "bool"
    return r


def _cmp0(kind):
    def f(I, args, kw):
        a, b = args
        return _compare_vals(kind, a, b)
    return f


def _compare_vals(kind, a, b):
    """indicator of  a <kind> b  as an opaque 0/1 head of (a - b)."""
    inf = float("inf")
    for x, sgn in ((b, 1), (a, -1)):
        if isinstance(x, float) and x in (inf, -inf):
            # comparison with an infinite constant is decided
            other = a if x is b else b
            truth = {"Ge": (x == -inf) if sgn == 1 else (x == inf),
                     "Le": (x == inf) if sgn == 1 else (x == -inf),
                     "Gt": (x == -inf) if sgn == 1 else (x == inf),
                     "Lt": (x == inf) if sgn == 1 else (x == -inf),
                     "Eq": False, "Ne": True}[kind]
            o = _arr(other)
            return Val(o.axes, [(D(1), nf.Net())] if truth else [], kind="bool")
    d = nf.add(_arr(a), _arr(b), -1)
    dom = dominant_inf(d)
    if dom is not None:
        truth = {"Ge": dom > 0, "Gt": dom > 0, "Le": dom < 0, "Lt": dom < 0, "Eq": False, "Ne": True}[kind]
        return Val(d.axes, [(D(1), nf.Net())] if truth else [], kind="bool")
    r = nf.elementwise(kind + "0", d)
    r.kind = "bool"
    return r


def j_isfinite(I, args, kw):
    x = args[0]
    if isinstance(x, float):
        return x not in (float("inf"), float("-inf"))
    r = elementwise_inf("IsFinite", _arr(x))
    r.kind = "bool"
    return r


def j_squeeze(I, args, kw):
    v = _arr(args[0])
    ax = _axis(kw, args, 1)
    if ax is None:
        return Val([a for a in v.axes if a], v.terms, kind=v.kind)
    ax = nf._norm_axis(_int(ax), len(v.axes))
    if v.axes[ax]:
        raise ShapeError(f"squeeze of axis {ax} with size {nf.axsize(v.axes[ax])} != 1")
    return Val([a for k, a in enumerate(v.axes) if k != ax], v.terms, kind=v.kind)


def j_ix(I, args, kw):
    it = _I()
    for a in args:
        if not isinstance(a, it.IdxArr):
            raise Undecided("ix_ of non-index arrays")
    return tuple(args)


def j_setxor1d(I, args, kw):
    it = _I()
    a, b = args
    if isinstance(a, it.IdxArr) and a.kind == "arange" and isinstance(b, it.IdxArr) and b.kind == "arange" and (a.lo is None or D(a.lo).is_zero()):
        # complement of a contiguous prefix / suffix range is the other contiguous range
        blo = D(b.lo or 0)
        if blo.is_zero():
            return it.IdxArr(f"arange({b.size},{a.size})", a.size - b.size, kind="arange", lo=b.size)
        if blo + b.size == a.size:
            return it.IdxArr(f"arange(0,{blo})", blo, kind="arange", lo=D(0))
    if isinstance(a, it.IdxArr) and a.kind == "arange" and isinstance(b, it.IdxArr):
        # complement of b in arange(n), ascending (library contract of setxor1d for b subset of a)
        out = it.IdxArr(f"compl({b.name}|{a.size})", a.size - b.size, kind="generic")
        out.distinct = True          # a set complement has no repeated entries
        return out
    raise Undecided("setxor1d")


def j_setdiff1d(I, args, kw):
    """setdiff1d(arange(n), b) for b a subset of arange(n): the ascending complement - the same value as setxor1d(arange(n), b)"""
    it = _I()
    a, b = args[0], args[1]
    if isinstance(a, it.IdxArr) and a.kind == "arange" and (a.lo is None or D(a.lo).is_zero()) and isinstance(b, it.IdxArr):
        out = j_setxor1d(I, [a, b], {})
        size = kw.get("size")
        if size is not None and it.is_num(size) and D(size) != out.size:
            raise Undecided("setdiff1d with a size different from the complement's length (padding / truncation)")
        return out
    raise Undecided("setdiff1d")


def j_det(I, args, kw):
    """det(A) = exp(LnDet(A)) for the positive definite matrices of the library (exact arithmetic; that log(det(.)) overflows where
    slogdet does not is the log-domain rule's business)"""
    return nf.elementwise("Exp", nf.logdet(_arr(args[0])))


def j_linalg_inv(I, args, kw):
    v = _arr(args[0])
    nt = nf.normalize(v)
    if len(nt) == 1 and len(nt[0][1].f) == 1 and nf.ST.head[nt[0][1].f[0][0]].kind == "atom" and not nf.ST.head[nt[0][1].f[0][0]].sym:
        return nf.ginverse(v)
    return nf.inverse(v, "linalg.inv")[0]


def j_slogdet(I, args, kw):
    v = _arr(args[0])
    ld = nf.logdet(v)
    sign = Val(ld.axes, [(D(1), nf.Net())])
    return (sign, ld)


def j_cholesky(I, args, kw):
    return nf.matfun("Chol", _arr(args[0]), "cholesky")


def j_cho_factor(I, args, kw):
    c = nf.matfun("ChoFac", _arr(args[0]), "cho_factor")
    return (c, bool(kw.get("lower", False)))


def j_cho_solve(I, args, kw):
    c_and_lower, b = args[0], _arr(args[1])
    c = c_and_lower[0]
    # recover A from the ChoFac head
    nt = nf.normalize(c)
    if len(nt) == 1 and len(nt[0][1].f) == 1 and nf.ST.head[nt[0][1].f[0][0]].kind == "ChoFac":
        h, ix = nt[0][1].f[0]
        info = nf.ST.head[h]
        m = dict(zip(info.bslots + info.mslots, ix))
        A = Val([tuple([x]) for x in ix], [(cc, n.rename(m)) for cc, n in info.arg[1]])
        A = nf.rename_onto(Val(A.axes, A.terms), c) if False else A
        # A has the same axis variables as the factor value c
        A = Val(c.axes, A.terms)
        inv, _ = nf.inverse(A, "cho_solve")
        k = len(inv.axes)
        letters = "abcdefghij"
        bl = letters[: k - 2]
        return nf.einsum(f"{bl}xy,{bl}yz->{bl}xz", inv, b, what="cho_solve")
    raise Undecided("cho_solve with an unrecognised factor")


def r_normal(I, args, kw):
    key = args[0]
    shp = _shape_arg(args[1] if len(args) > 1 else kw["shape"])
    if not isinstance(key, Val):
        raise Undecided("PRNG key")
    kt = nf.normalize(key)
    kname = kt[0][1].f[0][0] if len(kt) == 1 and len(kt[0][1].f) == 1 else None
    if kname is None:
        raise Undecided("derived PRNG key")
    I.flags.setdefault("prng_calls", []).append((kname, [str(x) for x in shp], I.site, [D(x) for x in shp]))
    return nf.atom(f"Normal({kname};{','.join(str(x) for x in shp)})", shp)


def r_prngkey(I, args, kw):
    seed = args[0] if args else kw.get("seed")
    return nf.atom(f"PRNGKey({seed})", [2], kind="key")


def l_stop_gradient(I, args, kw):
    I.flags.setdefault("stop_gradient", []).append(I.site)
    return args[0]


def j_vmap(I, args, kw):
    it = _I()
    fn = args[0]
    in_axes = kw.get("in_axes", args[1] if len(args) > 1 else 0)
    out_axes = kw.get("out_axes", 0)
    if not isinstance(out_axes, int) or isinstance(out_axes, bool):
        raise Undecided("vmap with a non-integer out_axes")

    def mapped(*cargs, **ckw):
        if ckw:
            raise Undecided("vmap call with keyword arguments")
        axes_spec = list(in_axes) if isinstance(in_axes, (tuple, list)) else [in_axes] * len(cargs)
        if len(axes_spec) < len(cargs):
            axes_spec = axes_spec + [axes_spec[-1]] * (len(cargs) - len(axes_spec))
        k = None
        newargs = []
        unit = []
        for a, ax in zip(cargs, axes_spec):
            if ax is None:
                newargs.append(a)
                continue
            if not isinstance(a, Val) or not isinstance(ax, int) or isinstance(ax, bool):
                raise Undecided("vmap over a non-array argument / structured in_axes")
            if not a.axes:
                raise ShapeError("vmap over a 0-d array")
            ax = nf._norm_axis(ax, len(a.axes))
            A0 = a.axes[ax]
            rest = list(a.axes[:ax]) + list(a.axes[ax + 1:])
            if len(A0) == 0:
                unit.append(len(newargs))
                newargs.append(Val(rest, a.terms, kind=a.kind))
                continue
            if k is None:
                k = tuple(nf.fresh(nf.size(x), "v") for x in A0)
            elif len(k) != len(A0) or any(nf.size(x) != nf.size(y) for x, y in zip(k, A0)):
                if nf.axsize(k) != nf.axsize(A0):
                    raise ShapeError(f"vmap: mapped axes have sizes {nf.axsize(k)} and {nf.axsize(A0)}")
                raise Undecided("vmap over differently factored composite axes")
            ren = dict(zip(A0, k))
            newargs.append(Val(rest, [(c, n.rename(ren)) for c, n in a.terms], kind=a.kind))
        if k is None and not unit:
            raise Undecided("vmap without a mapped argument")
        if k is None:
            # every mapped axis has length one: a single call, the mapped axis is a unit axis of the result
            res = I.call(fn, newargs, {})

            def lift1(r):
                if isinstance(r, Val):
                    pos = out_axes if out_axes >= 0 else len(r.axes) + 1 + out_axes
                    return Val(list(r.axes[:pos]) + [()] + list(r.axes[pos:]), r.terms, kind=r.kind)
                if isinstance(r, tuple):
                    return tuple(lift1(x) for x in r)
                if it.is_num(r):
                    return Val([()], [(D(r), nf.Net())])
                raise Undecided("vmap body returns a non-array")
            return lift1(res)
        for x in k:
            nf.ST.ambient.add(x)
        try:
            res = I.call(fn, newargs, {})
        finally:
            for x in k:
                nf.ST.ambient.discard(x)

        def lift(r):
            if isinstance(r, Val):
                pos = out_axes if out_axes >= 0 else len(r.axes) + 1 + out_axes
                if not 0 <= pos <= len(r.axes):
                    raise ShapeError(f"vmap out_axes={out_axes} out of range for a result of rank {len(r.axes)}")
                return Val(list(r.axes[:pos]) + [tuple(k)] + list(r.axes[pos:]), r.terms, kind=r.kind)
            if isinstance(r, tuple):
                return tuple(lift(x) for x in r)
            if it.is_num(r):
                return Val([tuple(k)], [(D(r), nf.Net())])
            raise Undecided("vmap body returns a non-array")
        return lift(res)
    return it.PyCallable(mapped, "vmapped")


class EmptyRows:
    """an array whose leading axis has length zero (result of a scan over an empty range)"""

    def __repr__(s):
        return "<empty rows>"


def _concrete_range(idx):
    it = _I()
    if isinstance(idx, it.IdxArr) and idx.kind == "arange":
        lo = idx.lo or D(0)
        if lo.is_const() and idx.size.is_const() and lo.value().denominator == 1 and idx.size.value().denominator == 1:
            return list(range(int(lo.value()), int(lo.value()) + max(0, int(idx.size.value()))))
    return None


def idx_to_val(idx):
    """a concrete arange as a constant vector  sum_k (lo+k) e_k"""
    r = _concrete_range(idx)
    if r is None or not r:
        raise Undecided("index array used as a value")
    return nf.concat([Val([()], nf.const(k).terms) for k in r], 0)


def const_rows(v):
    """v: Val whose entries are constants, leading axis of concrete length n, every other axis of length 1
    -> list of n Fractions (None when v is not of that form)"""
    if not isinstance(v, Val) or not v.axes:
        return None
    n = v.shape[0]
    if not n.is_const() or n.value().denominator != 1 or any(not d.is_one() for d in v.shape[1:]):
        return None
    n = int(n.value())
    out = []
    for k in range(n):
        row = nf.slice_axis(v, 0, D(k), D(k + 1)) if n > 1 else v
        nt = nf.normalize(row)
        if not nt:
            out.append(D(0).value())
        elif len(nt) == 1 and not nt[0][1].f and nt[0][0].is_const():
            out.append(nt[0][0].value())
        else:
            return None
    return out


def rows_to_val(vals, like):
    """constant column with the axes layout of `like` (leading axis n, unit axes behind)"""
    nd = len(like.axes)
    return nf.concat([Val([()] * nd, nf.const(c).terms) for c in vals], 0)


def l_scan(I, args, kw):
    """lax.scan over a concrete range: unrolled (the loop variable is a python integer in each iteration)"""
    it = _I()
    f = args[0]
    init = args[1] if len(args) > 1 else kw["init"]
    xs = args[2] if len(args) > 2 else kw.get("xs")
    r = _concrete_range(xs)
    if r is None:
        raise Undecided("lax.scan over a non-concrete range")
    carry, ys = init, []
    for k in r:
        res = I.call(f, [carry, k], {})
        if not isinstance(res, tuple) or len(res) != 2:
            raise PyRaise_("TypeError", "scan body must return (carry, y)")
        carry, y = res
        if not isinstance(y, Val):
            raise Undecided("scan body with a non-array output")
        ys.append(y)
    if not ys:
        return (carry, EmptyRows())
    return (carry, nf.concat([nf.expand_dims(y, [None] + ["k"] * len(y.axes)) for y in ys], 0))


def pow_array_exponent(I, base, e):
    """base ** e for a constant integer column e (numpy broadcasting of e's leading axis against base)"""
    rows = const_rows(e)
    if rows is None:
        raise Undecided("array power with a non-constant exponent array")
    base = _arr(base)
    nd = max(len(base.axes), len(e.axes))
    if len(base.axes) < nd:
        base = nf.expand_dims(base, [None] * (nd - len(base.axes)) + ["k"] * len(base.axes))
    p = nd - len(e.axes)
    n = len(rows)
    bs = base.shape[p]
    if not (bs.is_one() or bs == D(n)):
        raise ShapeError(f"operands could not be broadcast together: exponent axis {n} vs base axis {bs}")
    out = []
    for k, ek in enumerate(rows):
        if ek.denominator != 1 or ek < 0:
            raise Undecided("array power with a negative / fractional exponent")
        bk = base if bs.is_one() else nf.slice_axis(base, p, D(k), D(k + 1))
        out.append(array_binop(I, ast.Pow(), bk, int(ek)))
    return out[0] if n == 1 and bs.is_one() else nf.concat(out, p)


def l_dynamic_update_slice_in_dim(I, args, kw):
    """lax.dynamic_update_slice_in_dim(operand, update, start, axis): writes ONE contiguous block.  Modelled only for the leading axis with
    start = idx[0] of a generic index list and as many update rows as the list has entries: the block start .. start+n-1 is the scatter at the
    contiguous run beginning at idx[0] - a different index list from idx itself, which is arbitrary (equal only for ascending contiguous idx)."""
    it = _I()
    operand, update, start = args[0], args[1], args[2]
    axis = kw.get("axis", args[3] if len(args) > 3 else None)
    if not isinstance(start, it.IdxElem) or _int(axis) != 0 or not isinstance(operand, Val) or not isinstance(update, Val):
        raise Undecided("dynamic_update_slice_in_dim outside the modelled form (leading axis, start = idx[k] of a generic index list)")
    if not update.axes or update.shape[0] != start.idx.size:
        raise Undecided("dynamic_update_slice_in_dim: update block not of the length of the index list")
    run = it.IdxArr(f"run({start.idx.name}[{start.k}])", start.idx.size, kind="generic")
    return _scatter(I, operand, run, update)


def not_modelled(name):
    def f(I, args, kw):
        raise Undecided(f"{name} is not modelled")
    return f


def s_norm(kind):
    def f(I, args, kw):
        x = args[0]
        if isinstance(x, float) and x in (float("inf"), float("-inf")):
            v = {"pdf": 0, "cdf": 1 if x > 0 else 0}.get(kind)
            if v is None:
                raise Undecided("logcdf at infinity")
            return D(v)
        return elementwise_inf("Norm" + kind, _arr(x))
    return f


def b_len(I, args, kw):
    x = args[0]
    if isinstance(x, Val):
        if not x.axes:
            raise PyRaise_("TypeError", "len() of unsized object")
        return x.shape[0]
    it = _I()
    if isinstance(x, it.IdxArr):
        return x.size
    return len(x)


def PyRaise_(exc, msg):
    return _I().PyRaise(exc, msg)


def b_isinstance(I, args, kw):
    it = _I()
    o, c = args
    classes = c if isinstance(c, tuple) else (c,)
    for k in classes:
        if isinstance(k, it.ClassRef):
            if isinstance(o, it.Obj) and I.prog.is_subclass(o.cls, k.name):
                return True
        else:
            raise Undecided("isinstance against a non-library class")
    return False


def b_int(I, args, kw):
    x = args[0]
    if isinstance(x, Val):
        I.findings.append(("array-to-python-scalar", I.site, "int()"))
        raise Undecided("int() of an array")
    return x


def b_print(I, args, kw):
    return None


BUILTINS = {
    "len": b_len, "isinstance": b_isinstance, "int": b_int, "float": b_int, "bool": b_int, "print": b_print,
    "tuple": lambda I, a, k: tuple(a[0]) if a else (), "list": lambda I, a, k: list(a[0]) if a else [],
    "dict": lambda I, a, k: dict(*a, **k), "zip": lambda I, a, k: list(zip(*a)),
    "sorted": lambda I, a, k: sorted(*a), "set": lambda I, a, k: set(*a),
    "abs": lambda I, a, k: abs(a[0]) if not isinstance(a[0], Val) else nf.elementwise("Abs", a[0]),
    "sum": b_sum, "range": b_range, "enumerate": b_enumerate, "type": lambda I, a, k: b_type(I, a, k),
    # staticmethod(f) / classmethod-free hooks stored as class attributes: the wrapped callable itself (no receiver is bound when it
    # is looked up through an instance, because class constants are returned as they are)
    "staticmethod": lambda I, a, k: a[0],
    "getattr": lambda I, a, k: b_getattr(I, a, k), "hasattr": lambda I, a, k: b_hasattr(I, a, k),
    "setattr": lambda I, a, k: I.setattr(a[0], a[1], a[2]),
    "any": lambda I, a, k: any(bool(I.truth(x)) for x in I.concrete_iter(a[0])),
    "all": lambda I, a, k: all(bool(I.truth(x)) for x in I.concrete_iter(a[0])),
    "str": lambda I, a, k: str(a[0]) if a else "", "callable": lambda I, a, k: not isinstance(a[0], (Val, int, float, str, tuple, list, dict, type(None))),
    "map": lambda I, a, k: [I.call(a[0], list(xs), {}) for xs in zip(*[I.concrete_iter(x) for x in a[1:]])],
    "min": lambda I, a, k: min(*a), "max": lambda I, a, k: max(*a),
    "reversed": lambda I, a, k: list(reversed(I.concrete_iter(a[0]))),
}

EXT = {
    "jax.numpy.einsum": j_einsum, "jax.numpy.tile": j_tile, "jax.numpy.reshape": j_reshape,
    "jax.numpy.take": j_take, "jax.numpy.sum": j_sum, "jax.numpy.swapaxes": j_swapaxes,
    "jax.numpy.diagonal": j_diagonal, "jax.numpy.trace": j_trace, "jax.numpy.dot": j_dot,
    "jax.numpy.concatenate": j_concatenate, "jax.numpy.hstack": j_hstack, "jax.numpy.block": j_block,
    "jax.numpy.stack": j_stack_general, "jax.numpy.vstack": j_vstack, "jax.numpy.column_stack": j_column_stack,
    "jax.numpy.tensordot": j_tensordot, "jax.numpy.inner": j_inner, "jax.numpy.vdot": j_vdot, "jax.numpy.outer": j_outer,
    "jax.numpy.moveaxis": j_moveaxis, "jax.numpy.matrix_transpose": j_matrix_transpose, "jax.numpy.atleast_2d": j_atleast_2d,
    "jax.numpy.atleast_1d": j_atleast_1d, "jax.numpy.power": j_power, "jax.numpy.reciprocal": j_reciprocal, "jax.numpy.mean": j_mean,
    "jax.numpy.full": j_full, "jax.numpy.full_like": j_full_like, "jax.numpy.diag": j_diag, "functools.partial": f_partial, "jax.numpy.eye": j_eye, "jax.numpy.zeros": j_zeros, "jax.numpy.ones": j_ones,
    "jax.numpy.empty": j_empty, "jax.numpy.arange": j_arange, "jax.numpy.array": j_array,
    "jax.numpy.where": j_where, "jax.numpy.maximum": j_maximum, "jax.numpy.minimum": j_minimum, "jax.numpy.clip": j_clip, "jax.numpy.argsort": j_argsort, "jax.numpy.pad": j_pad, "jax.numpy.sort": j_sort, "jax.numpy.max": j_max, "jax.numpy.all": j_all, "jax.numpy.allclose": j_allclose, "jax.numpy.array_equal": j_allclose,
    "jax.numpy.any": j_any, "jax.numpy.linalg.norm": j_norm,
    "jax.numpy.logical_and": j_logical_and, "jax.numpy.logical_or": j_logical_or, "jax.numpy.logical_not": j_logical_not, "jax.numpy.greater_equal": _cmp0("Ge"),
    "jax.numpy.less_equal": _cmp0("Le"), "jax.numpy.equal": _cmp0("Eq"), "jax.numpy.isfinite": j_isfinite,
    "jax.numpy.squeeze": j_squeeze, "jax.numpy.ix_": j_ix, "jax.numpy.setxor1d": j_setxor1d, "jax.numpy.setdiff1d": j_setdiff1d,
    "jax.numpy.exp": _elementwise("Exp"), "jax.numpy.log": _elementwise("Log"), "jax.numpy.sqrt": _elementwise("Sqrt"),
    "jax.numpy.cosh": _elementwise("Cosh"), "jax.numpy.tanh": _elementwise("Tanh"), "jax.numpy.abs": _elementwise("Abs"),
    "jax.numpy.round": _elementwise("Round"), "jax.numpy.sign": _elementwise("Sign"),
    "jax.numpy.cumsum": not_modelled("cumsum"),
    "math.log": _elementwise("Log"), "math.sqrt": _elementwise("Sqrt"), "math.exp": _elementwise("Exp"),
    "numpy.log": _elementwise("Log"), "numpy.sqrt": _elementwise("Sqrt"), "numpy.exp": _elementwise("Exp"),
    "jax.numpy.log1p": j_log1p, "jax.numpy.expm1": j_expm1, "jax.numpy.square": j_square, "jax.numpy.negative": j_negative,
    "jax.numpy.add": j_add, "jax.numpy.subtract": j_subtract, "jax.numpy.multiply": j_multiply, "jax.numpy.divide": j_divide,
    "jax.numpy.matmul": j_matmul, "jax.numpy.transpose": j_transpose, "jax.numpy.expand_dims": j_expand_dims,
    "jax.numpy.broadcast_to": j_broadcast_to, "jax.numpy.zeros_like": j_zeros_like, "jax.numpy.ones_like": j_ones_like,
    "jax.numpy.repeat": j_repeat, "jax.numpy.asarray": j_array, "jax.numpy.float64": lambda I, a, k: a[0],
    "jax.numpy.linalg.slogdet": j_slogdet, "jax.numpy.linalg.inv": j_linalg_inv, "jax.numpy.linalg.det": j_det, "jax.numpy.linalg.cholesky": j_cholesky,
    "jax.scipy.linalg.cho_factor": j_cho_factor, "jax.scipy.linalg.cho_solve": j_cho_solve,
    "jax.random.normal": r_normal, "jax.random.PRNGKey": r_prngkey, "jax.random.key": r_prngkey,
    "jax.lax.stop_gradient": l_stop_gradient,
    "jax.vmap": j_vmap, "jax.lax.scan": l_scan,
    "jax.lax.while_loop": not_modelled("lax.while_loop"), "jax.jit": lambda I, a, k: a[0],
    "jax.scipy.stats.norm.pdf": s_norm("pdf"), "jax.scipy.stats.norm.cdf": s_norm("cdf"),
    "jax.scipy.stats.norm.logcdf": s_norm("logcdf"),
    "jax.scipy.special.gammaln": _elementwise("GammaLn"), "jax.lax.dynamic_update_slice_in_dim": l_dynamic_update_slice_in_dim,
}


def call_ext(I, dotted, args, kw):
    if dotted.startswith("builtins."):
        name = dotted.split(".", 1)[1]
        if name in BUILTINS:
            return BUILTINS[name](I, args, kw)
        raise Undecided(f"builtin {name}")
    f = EXT.get(dotted)
    if f is None:
        raise Undecided(f"external callable {dotted} has no transfer function")
    return f(I, args, kw)


# ----------------------------------------------------------------------------- array methods

def call_arr_method(I, v, name, args, kw):
    it = _I()
    if isinstance(v, it.AtProxy):
        if name == "set":
            return _at_set(I, v, args[0])
        raise Undecided(f".at[].{name}")
    if name == "reshape":
        shp = args[0] if len(args) == 1 and isinstance(args[0], (tuple, list)) else list(args)
        return _reshape(v, shp)
    if name == "sum":
        return j_sum(I, [v] + list(args), kw)
    if name == "diagonal":
        a1 = _int(kw.get("axis1", args[1] if len(args) > 1 else 0))
        a2 = _int(kw.get("axis2", args[2] if len(args) > 2 else 1))
        return nf.diagonal(v, a1, a2)
    if name == "astype":
        return v
    if name == "squeeze":
        return j_squeeze(I, [v] + list(args), kw)
    if name == "swapaxes":
        return j_swapaxes(I, [v] + list(args), kw)
    if name == "transpose" and not args:
        return nf.transpose(v)
    if name == "transpose":
        perm = args[0] if len(args) == 1 and isinstance(args[0], (tuple, list)) else list(args)
        return _perm_transpose(v, [nf._norm_axis(_int(x), len(v.axes)) for x in perm])
    if name == "mean":
        return j_mean(I, [v] + list(args), kw)
    if name == "dot":
        return j_dot(I, [v] + list(args), kw)
    if name == "trace":
        return j_trace(I, [v] + list(args), kw)
    if name == "flatten" or name == "ravel":
        return _reshape(v, [-1])
    if name == "copy":
        return v
    if name == "take":
        return j_take(I, [v] + list(args), kw)
    raise Undecided(f"array method {name}")


def _at_set(I, proxy, value):
    base, key = proxy.val, proxy.key
    if key is None:
        raise Undecided(".at without index")
    it = _I()
    if any(k[0] == "idx" for k in key):
        if len(key) == 1 and key[0][1].kind in ("generic", "perm"):
            return _scatter(I, base, key[0][1], value)
        raise Undecided("scatter with index arrays")
    slices = []
    for k in key:
        if k[0] == "slice":
            slices.append(None if (k[1] is None and k[2] is None) else (k[1], k[2]))
        else:
            raise Undecided(f".at[] key {k[0]}")
    if isinstance(value, (int, float, Dim)):
        value = nf.const(value)
    return nf.set_slices(base, slices, value)


def _scatter(I, base, idx, value):
    """base.at[idx].set(value) on the batch axis:  Keep_idx * base + Scatter_idx * value  (rule 9)."""
    value = _arr(value)
    if len(base.axes) != len(value.axes):
        raise ShapeError(f".at[{idx.name}].set: value rank {len(value.axes)} vs target rank {len(base.axes)}")
    for k in range(1, len(base.axes)):
        if base.shape[k] != value.shape[k]:
            raise ShapeError(f".at[{idx.name}].set: trailing shape {list(map(str, value.shape))} does not fit {list(map(str, base.shape))}")
    if value.shape[0] != idx.size:
        raise ShapeError(f".at[{idx.name}].set: {value.shape[0]} values for {idx.size} indices")
    n = base.shape[0]
    keep = nf.atom(f"Keep:{idx.name}", [n], kind="bool")
    scat = nf.atom(f"Scat:{idx.name}", [n, idx.size])
    letters = "bcdefgh"[: len(base.axes) - 1]
    kept = nf.mul(base, nf.expand_dims(keep, ["k"] + [None] * (len(base.axes) - 1)))
    put = nf.einsum(f"az,z{letters}->a{letters}", scat, value, what="scatter")
    return nf.add(kept, put)


# ----------------------------------------------------------------------------- operators

def array_binop(I, op, l, r):
    it = _I()
    inf = float("inf")
    if isinstance(op, ast.Mult):
        for x, y in ((l, r), (r, l)):
            if isinstance(x, float) and x in (inf, -inf) and isinstance(y, Val):
                # inf * ones(shape): the constant infinite array (only for arrays that are identically one)
                nt = nf.normalize(y)
                if len(nt) == 1 and not nt[0][1].f and nt[0][0].is_one():
                    return inf_val(1 if x > 0 else -1, y.axes)
                raise Undecided("infinite constant times a non-constant array")
    for x in (l, r):
        if isinstance(x, float) and x in (inf, -inf):
            raise Undecided("array arithmetic with an infinite constant")
    if isinstance(op, ast.Add):
        return nf.add(_arr(l), _arr(r))
    if isinstance(op, ast.Sub):
        return nf.add(_arr(l), _arr(r), -1, what="subtract")
    if isinstance(op, ast.Mult):
        if it.is_num(l):
            return nf.scale(r, l)
        if it.is_num(r):
            return nf.scale(l, r)
        return nf.mul(l, r)
    if isinstance(op, ast.Div):
        if it.is_num(r):
            d = D(r)
            if d.is_const():
                return nf.scale(l, D(1) / d)
            return nf.mul(l, nf.elementwise("Recip", nf.const(d)))
        rec = nf.elementwise("Recip", _arr(r))
        if it.is_num(l):
            return nf.scale(rec, l)
        return nf.mul(l, rec, what="divide")
    if isinstance(op, ast.Pow):
        if it.is_num(r) and D(r).is_const() and D(r).value().denominator == 1 and 0 <= D(r).value() <= 6:
            k = int(D(r).value())
            if k >= 2 and k % 2 == 0 and isinstance(l, Val):
                # sqrt(X) ** 2 = X also for a multi-term X (the in-network rule only handles single-term arguments)
                ntl = nf.normalize(l)
                if len(ntl) == 1 and ntl[0][0].is_one() and len(ntl[0][1].f) == 1 and nf.ST.head[ntl[0][1].f[0][0]].kind == "Sqrt" \
                        and all(x in nf.allfree(l) for x in ntl[0][1].f[0][1]):
                    inner = nf.head_arg_val(ntl[0][1].f[0][0], ntl[0][1].f[0][1], l.axes)
                    l = Val(l.axes, inner.terms)
                    k //= 2
            out = nf.const(1)
            for _ in range(k):
                out = nf.mul(out, l)
            if k == 0:
                out = nf.add(nf.scale(l, 0), out)
            return out
        if isinstance(r, Val) and r.axes:
            return pow_array_exponent(I, l, r)
        raise Undecided("array power with non-small-integer exponent")
    if isinstance(op, ast.MatMult):
        return matmul_vals(_arr(l), _arr(r))
    if isinstance(op, (ast.BitAnd, ast.BitOr)) and isinstance(l, Val) and isinstance(r, Val) and l.kind == "bool" and r.kind == "bool":
        # 0/1 indicators:  a & b = a b,  a | b = a + b - a b
        prod = nf.mul(l, r, what="&")
        out = prod if isinstance(op, ast.BitAnd) else nf.add(nf.add(l, r), prod, -1)
        out.kind = "bool"
        return out
    raise Undecided(f"array operator {type(op).__name__}")


def matmul_vals(l, r):
    """numpy matmul semantics: 1-D operands are promoted, leading (batch) axes broadcast"""
    if not l.axes or not r.axes:
        raise ShapeError("matmul: 0-d operand")
    if len(l.axes) == 2 and len(r.axes) == 2:
        return nf.einsum("ab,bc->ac", l, r, what="matmul")
    l1, r1 = len(l.axes) == 1, len(r.axes) == 1
    if l1:
        l = nf.expand_dims(l, [None, "k"])
    if r1:
        r = nf.expand_dims(r, ["k", None])
    if l.shape[-1] != r.shape[-2]:
        raise ShapeError(f"matmul: contracted sizes differ ({l.shape[-1]} vs {r.shape[-2]})")
    nd = max(len(l.axes), len(r.axes))
    l = nf.expand_dims(l, [None] * (nd - len(l.axes)) + ["k"] * len(l.axes) + [None])         # [..., i, k, 1]
    r = nf.expand_dims(r, [None] * (nd - len(r.axes)) + ["k"] * (len(r.axes) - 2) + [None, "k", "k"])   # [..., 1, k, j]
    out = nf.sum_axis(nf.mul(l, r, what="matmul"), -2, False)
    if l1:
        out = Val(out.axes[:-2] + out.axes[-1:], out.terms)
    if r1:
        out = Val(out.axes[:-1], out.terms)
    return out


def array_compare(I, op, l, r):
    kind = {ast.Eq: "Eq", ast.NotEq: "Ne", ast.Lt: "Lt", ast.LtE: "Le", ast.Gt: "Gt", ast.GtE: "Ge"}.get(type(op))
    if kind is None:
        raise Undecided("array comparison operator")
    return _compare_vals(kind, l, r)


# ----------------------------------------------------------------------------- indexing

def index(I, v, key):
    it = _I()
    if isinstance(v, it.IdxArr):
        if len(key) == 1 and key[0][0] == "idx":
            return _compose_idx(v, key[0][1])
        kinds = [k[0] for k in key]
        if v.mesh is None and kinds.count("slice") == 1 and all(k in ("slice", "none") for k in kinds) and all(k[1] is None and k[2] is None for k in key if k[0] == "slice"):
            # idx[:, None] / idx[None, :] ...: the same index list, placed on one axis of a broadcast (open-mesh) shape
            import copy
            w = copy.copy(v)
            w.mesh = (kinds.index("slice"), len(kinds))
            return w
        if v.kind == "generic" and v.mesh is None and len(key) == 1 and key[0][0] == "int":
            return it.IdxElem(v, key[0][1])
        v = idx_to_val(v)
    nd = len(v.axes)
    # expand ellipsis
    n_consuming = sum(1 for k in key if k[0] in ("slice", "int", "idx", "sym"))
    if n_consuming > nd:
        raise ShapeError(f"too many indices ({n_consuming}) for array of rank {nd}")
    if any(k[0] == "ellipsis" for k in key):
        pos = [i for i, k in enumerate(key) if k[0] == "ellipsis"][0]
        fill = [("slice", None, None)] * (nd - n_consuming)
        key = key[:pos] + fill + key[pos + 1:]
    else:
        key = list(key) + [("slice", None, None)] * (nd - n_consuming)
    idx_entries = [k for k in key if k[0] == "idx"]
    mesh_positions = None
    if len(idx_entries) > 1:
        # several index arrays: only the open-mesh form (jnp.ix_, or idx[:, None] / idx[None, :]) is modelled - each array selects
        # along its own axis; numpy's pointwise form x[i1, i2] with equally shaped arrays is a different operation
        mesh_positions = []
        for k in idx_entries:
            m = k[2] if len(k) > 2 else k[1].mesh
            if m is None or m[1] != len(idx_entries):
                raise Undecided("several index arrays that do not form an open mesh (pointwise advanced indexing)")
            mesh_positions.append(m[0])
        if sorted(mesh_positions) != list(range(len(idx_entries))):
            raise Undecided("index arrays broadcast onto the same mesh axis")
        kpos = [i for i, k in enumerate(key) if k[0] == "idx"]
        if kpos != list(range(kpos[0], kpos[0] + len(kpos))):
            raise Undecided("non-adjacent index arrays")
    elif len(idx_entries) == 1 and len(idx_entries[0]) <= 2 and idx_entries[0][1].mesh is not None:
        raise Undecided("a single broadcast-shaped index array")
    cur = v
    ax = 0
    out_axes_plan = []
    for k in key:
        if k[0] == "none":
            cur = Val(cur.axes[:ax] + [()] + cur.axes[ax:], cur.terms, kind=cur.kind)
            ax += 1
        elif k[0] == "slice":
            if k[1] is None and k[2] is None:
                ax += 1
            else:
                cur = nf.slice_axis(cur, ax, k[1], k[2])
                ax += 1
        elif k[0] == "int":
            i = D(k[1])
            A = cur.axes[ax]
            tot = nf.axsize(A)
            if i.is_const() and i.value() < 0:
                i = tot + i
            if not (dim_le(0, i) and dim_le(i + 1, tot)):
                raise ShapeError(f"index {k[1]} out of bounds for axis of size {tot} (generic sizes)")
            if A:
                cur = nf.slice_axis(cur, ax, i, i + 1)
            cur = Val(cur.axes[:ax] + cur.axes[ax + 1:], cur.terms, kind=cur.kind)
        elif k[0] == "idx":
            if mesh_positions is not None and not out_axes_plan:
                out_axes_plan.append(ax)          # first result axis of the mesh
            cur = _gather(cur, ax, k[1])
            ax += 1
        elif k[0] == "sym":
            # generic position of a comprehension variable: the axis variable is identified with it
            A = cur.axes[ax]
            if len(A) > 1:
                raise Undecided("symbolic index into a composite axis")
            if A:
                if nf.size(A[0]) != nf.size(k[1]):
                    raise Undecided(f"symbolic index over range({nf.size(k[1])}) into an axis of size {nf.size(A[0])}")
                cur = Val(cur.axes[:ax] + cur.axes[ax + 1:], [(c, n.rename({A[0]: k[1]})) for c, n in cur.terms], kind=cur.kind)
            else:
                if not nf.size(k[1]).is_one():
                    raise ShapeError(f"index over range({nf.size(k[1])}) into an axis of size 1")
                cur = Val(cur.axes[:ax] + cur.axes[ax + 1:], cur.terms, kind=cur.kind)
    if mesh_positions is not None and mesh_positions != sorted(mesh_positions):
        # key order i -> mesh axis mesh_positions[i]: result axis p of the mesh comes from the key entry with position p
        a0 = out_axes_plan[0]
        axes = list(cur.axes)
        sel = [axes[a0 + mesh_positions.index(p)] for p in range(len(mesh_positions))]
        axes[a0:a0 + len(sel)] = sel
        cur = Val(axes, cur.terms, kind=cur.kind)
    return cur

"""Abstract interpreter over the AST of gaussian_toolbox (DESIGN.md section 2).

Array values are `nf.Val` (shape x layout x normal form); static Python values are Dim / int / float /
bool / None / str / tuple / list / dict; objects are `Obj` with a field map and a write log.  Library
calls are inlined through the class table; third-party calls are mapped to transfer functions in
`intrinsics.py`.  Nothing from the analysed repository is imported or executed.
"""
import ast
from fractions import Fraction
from . import nf
from .nf import Val, ShapeError, LayoutError, Undecided
from .dim import Dim, D, dim_le, dim_lt

MAX_DEPTH = 14
ALL_CALLS = set()
EXTRA_FACTS = {}    # facts assumed by the obligation runner while it explores both sides of a branch on unknown sizes (core.run_one)


class UnknownBranch(Undecided):
    """A Python branch whose condition compares sizes that the context leaves open: the runner decides the obligation
    once under each feasible outcome (DESIGN 2.6)."""

    def __init__(s, key, msg, facts):
        Undecided.__init__(s, msg)
        s.key, s.facts = key, facts


class PyRaise(Exception):
    """The analysed code raises a Python exception on this path."""

    def __init__(s, exc, msg="", site=None):
        super().__init__(f"{exc}: {msg}")
        s.exc, s.msg, s.site = exc, msg, site


class Ret(Exception):
    def __init__(s, v):
        s.v = v


class AbstractError(Exception):
    """A ShapeError / LayoutError located at a construct of the analysed program."""

    def __init__(s, kind, msg, site, stack):
        super().__init__(f"{kind} at {site}: {msg}")
        s.kind, s.msg, s.site, s.stack = kind, msg, site, stack


class Obj:
    _n = 0

    def __init__(s, cls, fields):
        Obj._n += 1
        s.oid = Obj._n
        s.cls = cls
        s.f = fields
        s.meta = {}

    def __repr__(s):
        return f"<{s.cls}#{s.oid}>"


class Env:
    __slots__ = ("d", "parent", "mod", "cls", "selfobj", "fname")

    def __init__(s, parent=None, mod=None, cls=None, selfobj=None, fname=None):
        s.d = {}
        s.parent = parent
        s.mod = mod if mod is not None else (parent.mod if parent else None)
        s.cls = cls if cls is not None else (parent.cls if parent else None)
        s.selfobj = selfobj if selfobj is not None else (parent.selfobj if parent else None)
        s.fname = fname if fname is not None else (parent.fname if parent else None)

    def get(s, k):
        e = s
        while e is not None:
            if k in e.d:
                return True, e.d[k]
            e = e.parent
        return False, None

    def set(s, k, v):
        s.d[k] = v


class Closure:
    def __init__(s, node, env):
        s.node, s.env = node, env


class LoopBreak(Exception):
    pass


class SymRange:
    """range(n) with a symbolic n: iterated only by comprehensions whose element is parametric in the loop variable"""

    def __init__(s, n):
        s.n = D(n)


class SymIndex:
    """the loop variable of a comprehension over a symbolic range: a generic position `var` of an axis of size n"""

    def __init__(s, var):
        s.var = var


class SymList:
    """[elt(i) for i in range(n)] with symbolic n: `value` is elt evaluated once at the generic position(s) `vars`"""

    def __init__(s, vars_, value):
        s.vars, s.value = tuple(vars_), value


class LoopContinue(Exception):
    pass


class BoundMethod:
    def __init__(s, obj, owner, fn):
        s.obj, s.owner, s.fn = obj, owner, fn


class ClassRef:
    def __init__(s, name):
        s.name = name

    def __repr__(s):
        return f"<classref {s.name}>"


class FuncRef:
    def __init__(s, mod, node, owner=None):
        s.mod, s.node, s.owner = mod, node, owner


class ExtRef:
    def __init__(s, dotted):
        s.dotted = dotted

    def __repr__(s):
        return f"<ext {s.dotted}>"


class LibMod:
    def __init__(s, name):
        s.name = name


class ArrMethod:
    def __init__(s, val, name):
        s.val, s.name = val, name


class AtProxy:
    def __init__(s, val, key=None):
        s.val, s.key = val, key


class SuperProxy:
    def __init__(s, obj, after):
        s.obj, s.after = obj, after


class IdxArr:
    """A static-shape integer index array (input `indices`, arange, setxor1d result, constant list)."""

    distinct = False  # a generic index list without repeated entries (one-hot rows select different positions)
    mesh = None      # (position, rank) when the index array was reshaped to broadcast as one axis of an open mesh (idx[:, None], idx[None, :])

    def __init__(s, name, size, kind="generic", lo=None, values=None, inverse=False, parts=None):
        # kind: generic | arange | const | perm (permutation of a whole axis; inverse=True: its inverse) | compose (parts[0][parts[1]])
        s.name, s.size, s.kind, s.lo, s.values, s.inverse, s.parts = name, D(size), kind, lo, values, inverse, parts

    def __repr__(s):
        return f"<idx {s.name}:{s.size}>"


class IdxElem:
    """one entry idx[k] of a generic index list (a traced integer): only meaningful as the start of a dynamic slice"""

    def __init__(s, idx, k):
        s.idx, s.k = idx, k

    def __repr__(s):
        return f"<{s.idx.name}[{s.k}]>"


class NTuple(tuple):
    """instance of a typing.NamedTuple subclass of the analysed program: a tuple whose entries are also attributes"""
    _fields = ()
    _cls = "?"

    def __new__(cls, values, fields, clsname):
        o = super().__new__(cls, values)
        o._fields, o._cls = tuple(fields), clsname
        return o


class IdxMask:
    """elementwise sign test of a generic index list: sense 'neg' (idx < 0) or 'nonneg' (idx >= 0)"""

    def __init__(s, base, sense):
        s.base, s.sense = base, sense


class PyCallable:
    """host-side helper exposed to the analysed code (vmap wrappers etc.)"""

    def __init__(s, fn, name="<host>"):
        s.fn, s.name = fn, name


INF = float("inf")


def is_num(x):
    return isinstance(x, (int, float, Dim, Fraction)) and not isinstance(x, bool)


def to_dim(x):
    if isinstance(x, float) and x in (INF, -INF):
        raise Undecided("infinite constant in arithmetic")
    return D(x)


class Interp:
    def __init__(s, prog, facts=None, flags=None):
        s.prog = prog
        s.facts = dict(facts or {})
        s.flags = dict(flags or {})
        s.depth = 0
        s.stack = []            # call stack of (mod, qualname)
        s.site = None
        s.writes = []           # (oid, cls, field, site)
        s.assumptions = []
        s.findings = []         # rule findings with exact syntactic witness (taint etc.)
        s.calls = []            # library functions entered (for evidence)
        s.hooks = {}            # (cls, method) -> host override(interp, selfobj, args, kw)
        from . import intrinsics
        s.intr = intrinsics

    # ================================================================== objects
    def construct(s, clsname, kw, site=None):
        prog = s.prog
        tab = prog.field_table(clsname)
        ci = prog.cls(clsname)
        if not ci.is_dataclass:
            raise Undecided(f"construction of non-dataclass {clsname}")
        unknown = [k for k in kw if k not in tab]
        if unknown:
            raise PyRaise("ValueError", f"{clsname}.__init__() got unexpected kwargs: {sorted(unknown)}", s.site)
        f = {}
        for name, ent in tab.items():
            if ent["init"]:
                if name in kw:
                    f[name] = kw[name]
                elif ent["default"] == "REQUIRED":
                    raise PyRaise("TypeError", f"{clsname}.__init__() missing required keyword argument '{name}'", s.site)
                elif ent["default"] == "NONE":
                    f[name] = None
                else:
                    f[name] = s.ev(ent["default"], Env(mod=prog.cls(ent["owner"]).mod))
            else:
                if ent["default"] == "NONE":
                    f[name] = None
                elif ent["default"] not in ("UNSET", "REQUIRED"):
                    f[name] = s.ev(ent["default"], Env(mod=prog.cls(ent["owner"]).mod))
        o = Obj(clsname, f)
        o.meta["born"] = len(s.writes)
        r = prog.find_method(clsname, "__post_init__")
        if r is not None:
            s.call_fn(r[1], prog.cls(r[0]).mod, r[0], o, [], {})
        return o

    def class_const(s, clsname, name):
        """class-level constant NAME = <expr> of the class or one of its bases: (value,) or None"""
        for c in s.prog.mro(clsname):
            ci = s.prog.classes.get(c)
            if ci is not None and name in ci.consts:
                cache = s.flags.setdefault("_class_consts", {})
                if (c, name) not in cache:
                    cache[(c, name)] = s.ev(ci.consts[name], Env(mod=ci.mod, cls=c, fname="<class body>"))
                return (cache[(c, name)],)
        return None

    def construct_plain(s, clsname, ci, args, kw):
        """instances of classes that are not (project-)dataclasses: typing.NamedTuple records and plain classes with __init__"""
        prog = s.prog
        ext_bases = [b[4:] for b in ci.bases if b.startswith("ext:")]
        if any(b.split(".")[-1] == "NamedTuple" for b in ext_bases):
            fields = [n for n, _, _ in ci.ann]
            defaults = {n: d for n, _, d in ci.ann if d is not None}
            if len(args) > len(fields):
                raise PyRaise("TypeError", f"{clsname}() takes {len(fields)} positional arguments", s.site)
            vals = dict(zip(fields, args))
            for k, v in kw.items():
                if k not in fields or k in vals:
                    raise PyRaise("TypeError", f"{clsname}() got an unexpected / duplicate argument '{k}'", s.site)
                vals[k] = v
            for n in fields:
                if n not in vals:
                    if n not in defaults:
                        raise PyRaise("TypeError", f"{clsname}() missing argument '{n}'", s.site)
                    vals[n] = s.ev(defaults[n], Env(mod=ci.mod))
            return NTuple([vals[n] for n in fields], fields, clsname)
        r = prog.find_method(clsname, "__init__")
        o = Obj(clsname, {})
        o.meta["born"] = len(s.writes)
        if r is not None:
            s.call_fn(r[1], prog.cls(r[0]).mod, r[0], o, list(args), dict(kw))
        elif ext_bases and not all(b in ("object", "ABC", "abc.ABC") for b in ext_bases):
            raise Undecided(f"construction of {clsname}: its initialiser comes from a base class outside the analysed package ({ext_bases})")
        elif args or kw:
            raise PyRaise("TypeError", f"{clsname}() takes no arguments", s.site)
        return o

    def getattr(s, o, name, node=None):
        prog = s.prog
        if isinstance(o, NTuple):
            if name in o._fields:
                return o[o._fields.index(name)]
            if name == "_fields":
                return o._fields
            if name == "_asdict":
                return PyCallable(lambda: dict(zip(o._fields, o)), "_asdict")
            if name == "_replace":
                return PyCallable(lambda **k: NTuple([k.get(n, v) for n, v in zip(o._fields, o)], o._fields, o._cls), "_replace")
            raise PyRaise("AttributeError", f"'{o._cls}' object has no attribute '{name}'", s.site)
        if isinstance(o, Obj):
            if name in o.f:
                return o.f[name]
            r = prog.find_method(o.cls, name)
            if r is None:
                cv = s.class_const(o.cls, name)
                if cv is not None:
                    return cv[0]
                raise PyRaise("AttributeError", f"'{o.cls}' object has no attribute '{name}'", s.site)
            owner, fn = r
            if prog.is_property(fn):
                return s.call_fn(fn, prog.cls(owner).mod, owner, o, [], {})
            if prog.is_static(fn):
                return FuncRef(prog.cls(owner).mod, fn, owner)
            return BoundMethod(o, owner, fn)
        if isinstance(o, SuperProxy):
            r = prog.find_method(o.obj.cls, name, after=o.after)
            if r is None:
                raise PyRaise("AttributeError", f"super() has no attribute {name}", s.site)
            return BoundMethod(o.obj, r[0], r[1])
        if isinstance(o, Val):
            if name == "shape":
                return tuple(o.shape)
            if name == "ndim":
                return o.ndim
            if name == "T":
                return nf.transpose(o)
            if name == "mT":
                if len(o.axes) < 2:
                    raise PyRaise("ValueError", ".mT of an array of rank < 2", s.site)
                return nf.swapaxes(o, -1, -2)
            if name == "size":
                t = D(1)
                for x in o.shape:
                    t = t * x
                return t
            if name == "at":
                return AtProxy(o)
            if name == "dtype":
                return "dtype"
            return ArrMethod(o, name)
        if isinstance(o, AtProxy):
            return ArrMethod(o, name)
        if isinstance(o, LibMod):
            r = prog._member(o.name, name)
            if r is None:
                raise PyRaise("AttributeError", f"module {o.name} has no attribute {name}", s.site)
            return s._wrap_static(r)
        if isinstance(o, ExtRef):
            return s.intr.ext_attr(s, o.dotted + "." + name)
        if isinstance(o, ClassRef):
            r = prog.find_method(o.name, name)
            if r is None:
                cv = s.class_const(o.name, name)
                if cv is not None:
                    return cv[0]
                if name == "__name__":
                    return o.name
                raise PyRaise("AttributeError", f"class {o.name} has no attribute {name}", s.site)
            return FuncRef(prog.cls(r[0]).mod, r[1], r[0])
        if isinstance(o, IdxArr):
            if name == "shape":
                return (o.size,)
            if name == "ndim":
                return 1
        if isinstance(o, dict):
            if name in ("update", "keys", "items", "get", "values"):
                return PyCallable(getattr(o, name), f"dict.{name}")
        if isinstance(o, tuple) and name in ("index", "count"):
            return PyCallable(getattr(o, name))
        raise Undecided(f"attribute {name} of {type(o).__name__}")

    def module_global(s, mod, name):
        """value of a module-level constant  NAME = <expr>  (evaluated once, in the scope of its module)"""
        cache = s.flags.setdefault("_module_globals", {})
        if (mod, name) not in cache:
            busy = s.flags.setdefault("_module_globals_busy", set())
            if (mod, name) in busy:
                raise Undecided(f"recursive module-level definition of {name}")
            busy.add((mod, name))
            try:
                cache[(mod, name)] = s.ev(s.prog.globals[(mod, name)], Env(mod=mod, fname="<module>"))
            finally:
                busy.discard((mod, name))
        return cache[(mod, name)]

    def _wrap_static(s, r):
        if r[0] == "global":
            return s.module_global(r[1], r[2])
        if r[0] == "class":
            return ClassRef(r[1])
        if r[0] == "func":
            return FuncRef(r[1], s.prog.functions[(r[1], r[2])])
        if r[0] == "mod":
            return LibMod(r[1])
        if r[0] == "ext":
            return s.intr.ext_attr(s, r[1])
        raise Undecided(str(r))

    def setattr(s, o, name, v):
        if not isinstance(o, Obj):
            raise Undecided(f"attribute store on {type(o).__name__}")
        s.writes.append((o.oid, o.cls, name, s.site, o.f.get(name, "<unset>"), v))
        o.f[name] = v

    # ================================================================== calls
    def call_method(s, o, name, args=(), kw=None):
        return s.call(s.getattr(o, name), list(args), dict(kw or {}))

    def call(s, f, args, kw):
        if isinstance(f, BoundMethod):
            h = s.hooks.get((f.owner, f.fn.name))
            if h is not None:
                return h(s, f.obj, args, kw)
            return s.call_fn(f.fn, s.prog.cls(f.owner).mod, f.owner, f.obj, args, kw)
        if isinstance(f, FuncRef):
            h = s.hooks.get((f.mod, f.node.name))
            if h is not None:
                return h(s, None, args, kw)
            return s.call_fn(f.node, f.mod, f.owner, None, args, kw)
        if isinstance(f, ClassRef):
            ci = s.prog.cls(f.name)
            if not ci.is_dataclass:
                return s.construct_plain(f.name, ci, args, kw)
            if args:
                raise PyRaise("ValueError", "Mappable dataclass constructor doesn't support positional args.", s.site)
            return s.construct(f.name, kw)
        if isinstance(f, Closure):
            return s.call_closure(f, args, kw)
        if isinstance(f, ExtRef):
            return s.intr.call_ext(s, f.dotted, args, kw)
        if isinstance(f, ArrMethod):
            return s.intr.call_arr_method(s, f.val, f.name, args, kw)
        if isinstance(f, PyCallable):
            return f.fn(*args, **kw)
        if isinstance(f, Obj):
            return s.call(s.getattr(f, "__call__"), args, kw)
        if f is None:
            raise PyRaise("TypeError", "'NoneType' object is not callable", s.site)
        raise Undecided(f"call of {type(f).__name__}")

    def _bind(s, fnargs, args, kw, env, defaults_env, skip_self):
        a = fnargs
        params = [p.arg for p in a.posonlyargs + a.args]
        if skip_self:
            params = params[1:]
        ndef = len(a.defaults)
        defaults = {}
        allpos = [p.arg for p in a.posonlyargs + a.args]
        for p, d in zip(allpos[len(allpos) - ndef:], a.defaults):
            defaults[p] = d
        for p, d in zip(a.kwonlyargs, a.kw_defaults):
            if d is not None:
                defaults[p.arg] = d
        if len(args) > len(params) and a.vararg is None:
            raise PyRaise("TypeError", f"too many positional arguments ({len(args)} > {len(params)})", s.site)
        bound = {}
        for p, v in zip(params, args):
            bound[p] = v
        extra_kw = {}
        names = set(params) | {p.arg for p in a.kwonlyargs}
        for k, v in kw.items():
            if k in names:
                if k in bound:
                    raise PyRaise("TypeError", f"multiple values for argument '{k}'", s.site)
                bound[k] = v
            elif a.kwarg is not None:
                extra_kw[k] = v
            else:
                raise PyRaise("TypeError", f"unexpected keyword argument '{k}'", s.site)
        for p in list(params) + [q.arg for q in a.kwonlyargs]:
            if p not in bound:
                if p in defaults:
                    bound[p] = s.ev(defaults[p], defaults_env)
                else:
                    raise PyRaise("TypeError", f"missing required argument '{p}'", s.site)
        for k, v in bound.items():
            env.set(k, v)
        if a.kwarg is not None:
            env.set(a.kwarg.arg, extra_kw)
        if a.vararg is not None:
            env.set(a.vararg.arg, tuple(args[len(params):]))

    def call_fn(s, fn, mod, owner, selfobj, args, kw):
        if s.depth >= MAX_DEPTH:
            raise Undecided("inlining depth bound")
        prog = s.prog
        env = Env(mod=mod, cls=owner, selfobj=selfobj, fname=fn.name)
        has_self = selfobj is not None and not prog.is_static(fn)
        if prog.is_classmethod(fn):
            # the first parameter is the class: the receiver's dynamic class, or the class the method was looked up on
            if owner is None or not (fn.args.posonlyargs + fn.args.args):
                raise Undecided("classmethod outside a class")
            env.set((fn.args.posonlyargs + fn.args.args)[0].arg, ClassRef(selfobj.cls if isinstance(selfobj, Obj) else owner))
            has_self = True
        elif has_self:
            env.set((fn.args.posonlyargs + fn.args.args)[0].arg, selfobj)
        s._bind(fn.args, args, kw, env, Env(mod=mod, cls=owner), has_self)
        qn = f"{owner + '.' if owner else ''}{fn.name}"
        s.calls.append((mod, qn))
        ALL_CALLS.add((mod, qn))
        s.stack.append((mod, qn))
        s.depth += 1
        saved = s.site
        try:
            s.block(fn.body, env)
            return None
        except Ret as r:
            return r.v
        finally:
            s.depth -= 1
            s.stack.pop()
            s.site = saved

    def call_closure(s, c, args, kw):
        if s.depth >= MAX_DEPTH:
            raise Undecided("inlining depth bound")
        env = Env(parent=c.env)
        node = c.node
        s._bind(node.args, args, kw, env, c.env, False)
        s.depth += 1
        saved = s.site
        try:
            if isinstance(node, ast.Lambda):
                return s.ev(node.body, env)
            s.block(node.body, env)
            return None
        except Ret as r:
            return r.v
        finally:
            s.depth -= 1
            s.site = saved

    # ================================================================== statements
    def block(s, body, env):
        for st in body:
            s.exec(st, env)

    def _mksite(s, st, env):
        return (env.mod, f"{env.cls + '.' if env.cls else ''}{env.fname}", getattr(st, "lineno", 0))

    def exec(s, st, env):
        s.site = s._mksite(st, env)
        try:
            s._exec(st, env)
        except (ShapeError, LayoutError) as e:
            site = s._mksite(st, env)
            src = ast.unparse(st)
            raise AbstractError(type(e).__name__, f"{e}  [in: {src[:200]}]", site, list(s.stack)) from None

    def _exec(s, st, env):
        if isinstance(st, ast.Expr):
            if isinstance(st.value, ast.Constant):
                return
            s.ev(st.value, env)
        elif isinstance(st, ast.Assign):
            v = s.ev(st.value, env)
            for t in st.targets:
                s.assign(t, v, env)
        elif isinstance(st, ast.AnnAssign):
            if st.value is not None:
                s.assign(st.target, s.ev(st.value, env), env)
        elif isinstance(st, ast.AugAssign):
            cur = s.ev(st.target, env)
            v = s.binop(st.op, cur, s.ev(st.value, env))
            s.assign(st.target, v, env)
        elif isinstance(st, ast.Return):
            raise Ret(s.ev(st.value, env) if st.value is not None else None)
        elif isinstance(st, ast.If):
            tv = s.ev(st.test, env)
            t = s.truth(tv, st.test)
            if t is None:
                msg = f"branch on statically unknown condition `{ast.unparse(st.test)}` at {s.site}"
                if getattr(tv, "key", None) is not None:
                    raise UnknownBranch(tv.key, msg, dict(s.facts))
                raise Undecided(msg)
            s.block(st.body if t else st.orelse, env)
        elif isinstance(st, ast.Assert):
            t = s.truth(s.ev(st.test, env), st.test)
            if t is False:
                raise PyRaise("AssertionError", ast.unparse(st.test), s.site)
            if t is None:
                s.assumptions.append((s.site, ast.unparse(st.test)))
                s._assume(st.test, env)
        elif isinstance(st, ast.Try):
            try:
                s.block(st.body, env)
            except PyRaise as e:
                for h in st.handlers:
                    hn = ast.unparse(h.type) if h.type is not None else None
                    if hn is None or hn == e.exc or hn == "Exception":
                        s.block(h.body, env)
                        break
                else:
                    raise
            else:
                s.block(st.orelse, env)
            s.block(st.finalbody, env)
        elif isinstance(st, ast.Raise):
            if st.exc is None:
                raise PyRaise("reraise", "", s.site)
            if isinstance(st.exc, ast.Call):
                name = ast.unparse(st.exc.func)
                msg = ast.unparse(st.exc.args[0]) if st.exc.args else ""
            else:
                name, msg = ast.unparse(st.exc), ""
            raise PyRaise(name, msg, s.site)
        elif isinstance(st, ast.Pass):
            return
        elif isinstance(st, ast.For):
            # loops over a concrete python iterable (static range / list / zip / enumerate) are unrolled
            if st.orelse:
                raise Undecided("for ... else")
            for item in s.concrete_iter(s.ev(st.iter, env), st.iter):
                s.assign(st.target, item, env)
                try:
                    s.block(st.body, env)
                except LoopBreak:
                    break
                except LoopContinue:
                    continue
        elif hasattr(ast, "Match") and isinstance(st, ast.Match):
            subj = s.ev(st.subject, env)
            if isinstance(subj, (Val, Unknown)) or not isinstance(subj, (str, int, bool, type(None), tuple)):
                raise Undecided("match on a value that is not a static python constant")

            def pat_ok(p):
                if isinstance(p, ast.MatchValue):
                    return s.ev(p.value, env) == subj
                if isinstance(p, ast.MatchSingleton):
                    return p.value is subj
                if isinstance(p, ast.MatchOr):
                    return any(pat_ok(q) for q in p.patterns)
                if isinstance(p, ast.MatchAs) and p.pattern is None:
                    if p.name is not None:
                        env.set(p.name, subj)
                    return True
                raise Undecided(f"match pattern {type(p).__name__}")
            for case in st.cases:
                if pat_ok(case.pattern):
                    if case.guard is not None:
                        g = s.truth(s.ev(case.guard, env), case.guard)
                        if g is None:
                            raise Undecided("match guard on unknown")
                        if not g:
                            continue
                    s.block(case.body, env)
                    break
        elif isinstance(st, ast.Break):
            raise LoopBreak()
        elif isinstance(st, ast.Continue):
            raise LoopContinue()
        elif isinstance(st, (ast.Import, ast.ImportFrom)):
            tab = {}
            s.prog._scan_import(env.mod, st, tab)
            for k, a in tab.items():
                if a[0] == "lib":
                    env.set(k, LibMod(a[1]))
                elif a[0] == "libobj":
                    env.set(k, s._wrap_static(s.prog._member(a[1], a[2])))
                else:
                    env.set(k, s.intr.ext_attr(s, a[1]))
        elif isinstance(st, ast.FunctionDef):
            env.set(st.name, Closure(st, env))
        else:
            raise Undecided(f"statement {type(st).__name__}")

    def concrete_iter(s, it, node=None):
        """the items of a python-level iterable with a statically known, concrete length"""
        if isinstance(it, (list, tuple)):
            return list(it)
        if isinstance(it, dict):
            return list(it)
        if isinstance(it, (range, set, frozenset, zip, type({}.items()), type({}.keys()), type({}.values()))):
            return list(it)
        if isinstance(it, (SymRange, SymList)):
            raise Undecided("python loop over a range of symbolic length (only comprehensions that are parametric in the loop variable are modelled)")
        if isinstance(it, IdxArr):
            r = s.intr._concrete_range(it)
            if r is not None:
                return r
        if isinstance(it, Val) and it.axes:
            n = it.shape[0]
            if n.is_const() and n.value().denominator == 1 and n.value() <= 64:
                n = int(n.value())
                return [s.intr.index(s, it, [("int", k)]) for k in range(n)]
        raise Undecided(f"iteration over a value without a concrete length: `{ast.unparse(node) if node is not None else type(it).__name__}`")

    def _comprehension(s, gens, env, emit):
        def rec(k, e):
            if k == len(gens):
                emit(e)
                return
            g = gens[k]
            if getattr(g, "is_async", 0):
                raise Undecided("async comprehension")
            for item in s.concrete_iter(s.ev(g.iter, e), g.iter):
                e2 = Env(parent=e)
                s.assign(g.target, item, e2)
                ok = True
                for c in g.ifs:
                    t = s.truth(s.ev(c, e2), c)
                    if t is None:
                        raise Undecided("comprehension filter on unknown")
                    if not t:
                        ok = False
                        break
                if ok:
                    rec(k + 1, e2)
        rec(0, env)

    def ev_ListComp(s, e, env):
        sym = s._symbolic_comprehension(e, env)
        if sym is not None:
            return sym
        out = []
        s._comprehension(e.generators, env, lambda e2: out.append(s.ev(e.elt, e2)))
        return out

    def _symbolic_comprehension(s, e, env):
        """comprehension whose generators all run over range(<symbolic size>) without filters: the element is evaluated once with
        the loop variables bound to generic positions (the same device as vmap's ambient index)"""
        its = []
        e2 = env
        for g in e.generators:
            it = s.ev(g.iter, e2)
            if not isinstance(it, SymRange):
                if its:
                    raise Undecided("comprehension mixing symbolic and concrete ranges")
                return None
            if g.ifs or not isinstance(g.target, ast.Name):
                raise Undecided("filtered / destructuring comprehension over a symbolic range")
            k = nf.fresh(it.n, "c")
            its.append(k)
            e2 = Env(parent=e2)
            e2.set(g.target.id, SymIndex(k))
        for k in its:
            nf.ST.ambient.add(k)
        try:
            val = s.ev(e.elt, e2)
        finally:
            for k in its:
                nf.ST.ambient.discard(k)
        return SymList(its, val)

    def ev_GeneratorExp(s, e, env):
        return s.ev_ListComp(e, env)

    def ev_SetComp(s, e, env):
        return set(s.ev_ListComp(e, env))

    def ev_DictComp(s, e, env):
        out = {}

        def emit(e2):
            out[s.ev(e.key, e2)] = s.ev(e.value, e2)
        s._comprehension(e.generators, env, emit)
        return out

    def ev_Starred(s, e, env):
        raise Undecided("starred expression outside a call")

    def _assume(s, test, env):
        """record `a <= b` / `a < b` facts of the analysed code's own (undecidable) guards for later slice checks."""
        if isinstance(test, ast.Compare) and len(test.ops) == 1:
            try:
                l, r = s.ev(test.left, env), s.ev(test.comparators[0], env)
            except Exception:
                return
            if is_num(l) and is_num(r):
                op = test.ops[0]
                if isinstance(op, (ast.LtE, ast.Lt)):
                    nf.ST.le_facts.add((repr(D(l)), repr(D(r))))
                elif isinstance(op, (ast.GtE, ast.Gt)):
                    nf.ST.le_facts.add((repr(D(r)), repr(D(l))))

    def assign(s, t, v, env):
        if isinstance(t, ast.Name):
            env.set(t.id, v)
        elif isinstance(t, (ast.Tuple, ast.List)):
            if not isinstance(v, (tuple, list)):
                raise Undecided("unpacking of a non-tuple")
            if len(t.elts) != len(v):
                raise PyRaise("ValueError", f"cannot unpack {len(v)} values into {len(t.elts)}", s.site)
            for tt, vv in zip(t.elts, v):
                s.assign(tt, vv, env)
        elif isinstance(t, ast.Attribute):
            o = s.ev(t.value, env)
            s.setattr(o, t.attr, v)
        elif isinstance(t, ast.Subscript):
            o = s.ev(t.value, env)
            if isinstance(o, dict):
                o[s.ev(t.slice, env)] = v
            else:
                raise Undecided("subscript store")
        else:
            raise Undecided(f"assignment target {type(t).__name__}")

    # ================================================================== truth / comparisons
    def truth(s, v, node=None):
        if isinstance(v, bool):
            return v
        if v is None:
            return False
        if isinstance(v, Val):
            src = ast.unparse(node) if node is not None else "?"
            s.findings.append(("array-in-control-flow", s.site, src))
            raise Undecided(f"array value used as Python truth value: `{src}` at {s.site}")
        if isinstance(v, Unknown):
            return None
        if isinstance(v, (int, float)):
            return bool(v)
        if isinstance(v, Dim):
            if v.is_const():
                return v.value() != 0
            return True
        if isinstance(v, (str, tuple, list, dict)):
            return len(v) > 0
        if isinstance(v, Obj):
            return True
        return None

    def cmp_num(s, op, l, r):
        if isinstance(l, float) or isinstance(r, float):
            if not isinstance(l, Dim) and not isinstance(r, Dim):
                return {ast.Eq: l == r, ast.NotEq: l != r, ast.Lt: l < r, ast.LtE: l <= r, ast.Gt: l > r, ast.GtE: l >= r}[type(op)]
        l, r = D(l), D(r)
        if isinstance(op, (ast.Eq, ast.NotEq)):
            if l == r:
                res = True
            elif l.is_const() and r.is_const():
                res = False
            else:
                res = s.fact("eq", l, r)
                if res is None:
                    # distinct polynomials in rigid size symbols are generically different
                    res = False
                    s.assumptions.append((s.site, f"generic sizes: {l} != {r}"))
            return res if isinstance(op, ast.Eq) else (not res)
        if isinstance(op, ast.Gt):
            return s._lt(r, l, strict=True)
        if isinstance(op, ast.GtE):
            return s._lt(r, l, strict=False)
        if isinstance(op, ast.Lt):
            return s._lt(l, r, strict=True)
        if isinstance(op, ast.LtE):
            return s._lt(l, r, strict=False)
        raise Undecided("comparison op")

    def fact(s, kind, l, r):
        k = (kind, repr(l), repr(r))
        if k in s.facts:
            return s.facts[k]
        if k in EXTRA_FACTS:
            return EXTRA_FACTS[k]
        k2 = (kind, repr(r), repr(l))
        if kind == "eq" and k2 in s.facts:
            return s.facts[k2]
        if kind == "eq" and k2 in EXTRA_FACTS:
            return EXTRA_FACTS[k2]
        return None

    def _lt(s, a, b, strict):
        """a < b (strict) or a <= b ; returns True / False / Unknown()"""
        d = b - a
        if d.is_const():
            return (d.value() > 0) if strict else (d.value() >= 0)
        f = s.fact("lt" if strict else "le", a, b)
        if f is not None:
            return f
        # derived from the opposite fact
        g = s.fact("le" if strict else "lt", b, a)
        if g is not None:
            return not g
        # a < b implies a <= b ;  not (a <= b) implies not (a < b)
        if not strict and s.fact("lt", a, b) is True:
            return True
        if strict and s.fact("le", a, b) is False:
            return False
        if strict and dim_lt(a, b):
            return True
        if not strict and dim_le(a, b):
            return True
        if strict and dim_le(b, a):
            return False
        if not strict and dim_lt(b, a):
            return False
        u = Unknown(f"{a} {'<' if strict else '<='} {b}")
        u.key = ("lt" if strict else "le", repr(a), repr(b))
        return u

    # ================================================================== expressions
    def lookup(s, name, env):
        ok, v = env.get(name)
        if ok:
            return v
        prog = s.prog
        mod = env.mod
        if name in prog.classes and prog.classes[name].mod == mod:
            return ClassRef(name)
        if (mod, name) in prog.functions:
            return FuncRef(mod, prog.functions[(mod, name)])
        if (mod, name) in prog.globals:
            return s.module_global(mod, name)
        a = prog.aliases.get(mod, {}).get(name)
        if a is not None:
            if a[0] == "lib":
                return LibMod(a[1])
            if a[0] == "libobj":
                r = prog._member(a[1], a[2])
                if r is None:
                    raise PyRaise("ImportError", f"cannot import {a[2]} from {a[1]}", s.site)
                return s._wrap_static(r)
            return s.intr.ext_attr(s, a[1])
        b = s.intr.builtin(s, name)
        if b is not None:
            return b
        # a name the program model cannot resolve is far more likely a gap of the model (module-level state, an import form it
        # does not follow) than a NameError of the library on a path its tests exercise: incomplete analysis, not a refutation
        raise Undecided(f"name `{name}` is not resolved by the program model (in {s.site[1]})")

    def ev(s, e, env):
        m = getattr(s, "ev_" + type(e).__name__, None)
        if m is None:
            raise Undecided(f"expression {type(e).__name__}")
        return m(e, env)

    def ev_Constant(s, e, env):
        return e.value

    def ev_Name(s, e, env):
        return s.lookup(e.id, env)

    def ev_Tuple(s, e, env):
        return tuple(s.ev(x, env) for x in e.elts)

    def ev_List(s, e, env):
        return [s.ev(x, env) for x in e.elts]

    def ev_Dict(s, e, env):
        d = {}
        for k, v in zip(e.keys, e.values):
            if k is None:
                d.update(s.ev(v, env))
            else:
                d[s.ev(k, env)] = s.ev(v, env)
        return d

    def ev_JoinedStr(s, e, env):
        return "<f-string>"

    def ev_Lambda(s, e, env):
        return Closure(e, env)

    def ev_IfExp(s, e, env):
        tv = s.ev(e.test, env)
        t = s.truth(tv, e.test)
        if t is None:
            if getattr(tv, "key", None) is not None:
                raise UnknownBranch(tv.key, f"conditional expression on statically unknown condition `{ast.unparse(e.test)}` at {s.site}", dict(s.facts))
            raise Undecided("conditional expression on unknown")
        return s.ev(e.body if t else e.orelse, env)

    def ev_Attribute(s, e, env):
        b = s.ev(e.value, env)
        return s.getattr(b, e.attr, e)

    def ev_UnaryOp(s, e, env):
        v = s.ev(e.operand, env)
        if isinstance(e.op, ast.USub):
            if isinstance(v, Val):
                return nf.neg(v)
            if isinstance(v, float) and v in (INF, -INF):
                return -v
            if is_num(v):
                return -v if not isinstance(v, Dim) else -v
            raise Undecided("unary minus")
        if isinstance(e.op, ast.UAdd):
            return v
        if isinstance(e.op, ast.Not):
            t = s.truth(v, e.operand)
            if t is None:
                u = Unknown("not")
                u.key = getattr(v, "key", None)
                return u
            return not t
        if isinstance(e.op, ast.Invert) and isinstance(v, Val) and v.kind == "bool":
            r = nf.add(nf.const(1), v, -1)          # ~mask for a 0/1 indicator
            r.kind = "bool"
            return r
        raise Undecided("unary op")

    def ev_BoolOp(s, e, env):
        isor = isinstance(e.op, ast.Or)
        unknown = False
        for x in e.values:
            v = s.ev(x, env)
            t = s.truth(v, x)
            if t is None:
                if not unknown:
                    ukey = getattr(v, "key", None)
                unknown = True
                continue
            if isor and t:
                return True
            if not isor and not t:
                return False
        if unknown:
            u = Unknown(ast.unparse(e))
            u.key = ukey        # deciding the first open comparison either way lets the evaluation proceed
            return u
        return not isor

    def ev_Compare(s, e, env):
        l = s.ev(e.left, env)
        res = True
        for op, c in zip(e.ops, e.comparators):
            r = s.ev(c, env)
            v = s.compare(op, l, r, e)
            if isinstance(v, (Val, IdxMask)):
                if len(e.ops) > 1:
                    raise Undecided("chained array comparison")
                return v
            if isinstance(v, Unknown):
                return v
            if not v:
                return False
            l = r
        return res

    def compare(s, op, l, r, node=None):
        if isinstance(op, ast.Is):
            return (l is None and r is None) or (l is r and not isinstance(l, Val))
        if isinstance(op, ast.IsNot):
            return not ((l is None and r is None) or (l is r and not isinstance(l, Val)))
        if l is None or r is None:
            # `array == None` idiom (eager JAX: False)
            if isinstance(op, ast.Eq):
                return l is None and r is None
            if isinstance(op, ast.NotEq):
                return not (l is None and r is None)
            raise PyRaise("TypeError", "ordering comparison with None", s.site)
        for a, b, flip in ((l, r, False), (r, l, True)):
            if isinstance(a, IdxArr) and a.kind == "generic" and is_num(b) and D(b).is_zero():
                kind = type(op)
                if flip:
                    kind = {ast.Lt: ast.Gt, ast.Gt: ast.Lt, ast.LtE: ast.GtE, ast.GtE: ast.LtE}.get(kind, kind)
                if kind is ast.Lt:
                    return IdxMask(a, "neg")
                if kind is ast.GtE:
                    return IdxMask(a, "nonneg")
                raise Undecided("comparison of an index list with 0 other than < / >=")
        if isinstance(l, Val) or isinstance(r, Val):
            return s.intr.array_compare(s, op, l, r)
        if isinstance(l, tuple) and isinstance(r, tuple):
            if isinstance(op, (ast.Eq, ast.NotEq)):
                if len(l) != len(r):
                    eq = False
                else:
                    eq = True
                    for a, b in zip(l, r):
                        v = s.cmp_num(ast.Eq(), a, b) if (is_num(a) and is_num(b)) else (a == b)
                        if isinstance(v, Unknown):
                            return v
                        if not v:
                            eq = False
                            break
                return eq if isinstance(op, ast.Eq) else not eq
        if is_num(l) and is_num(r):
            return s.cmp_num(op, l, r)
        if isinstance(l, str) and isinstance(r, str):
            return (l == r) if isinstance(op, ast.Eq) else (l != r) if isinstance(op, ast.NotEq) else Unknown("str cmp")
        if isinstance(op, ast.In) and isinstance(r, (dict, tuple, list)):
            return l in r
        raise Undecided(f"comparison of {type(l).__name__} and {type(r).__name__}")

    def ev_BinOp(s, e, env):
        return s.binop(e.op, s.ev(e.left, env), s.ev(e.right, env))

    def binop(s, op, l, r):
        # arithmetic on a generic index list stays symbolic: idx + n (shift), idx % n (negative entries wrapped)
        for a, b, left in ((l, r, True), (r, l, False)):
            if isinstance(a, IdxArr) and a.kind in ("generic", "shift") and is_num(b):
                base, sh = (a.parts if a.kind == "shift" else (a, D(0)))
                if isinstance(op, ast.Add):
                    sh2 = sh + D(b)
                elif isinstance(op, ast.Sub) and left:
                    sh2 = sh - D(b)
                elif isinstance(op, ast.Mod) and left and a.kind == "generic":
                    w = IdxArr(f"wrapneg[{D(b)}]:{a.name}", a.size, kind="wrapneg", parts=(a, D(b)))
                    return w
                else:
                    break
                if sh2.is_zero():
                    return base
                return IdxArr(f"shift[{sh2}]:{base.name}", base.size, kind="shift", parts=(base, sh2))
        if isinstance(l, IdxArr):
            l = s.intr._arr(l)
        if isinstance(r, IdxArr):
            r = s.intr._arr(r)
        if isinstance(l, Val) or isinstance(r, Val):
            return s.intr.array_binop(s, op, l, r)
        if is_num(l) and is_num(r):
            if isinstance(l, float) and l in (INF, -INF) or isinstance(r, float) and r in (INF, -INF):
                if isinstance(l, Dim) or isinstance(r, Dim):
                    raise Undecided("infinity in symbolic arithmetic")
                return {ast.Add: lambda: l + r, ast.Sub: lambda: l - r, ast.Mult: lambda: l * r, ast.Div: lambda: l / r}[type(op)]()
            if isinstance(l, int) and isinstance(r, int) and not isinstance(op, ast.Div):
                if isinstance(op, ast.Add):
                    return l + r
                if isinstance(op, ast.Sub):
                    return l - r
                if isinstance(op, ast.Mult):
                    return l * r
                if isinstance(op, ast.Pow) and r >= 0:
                    return l ** r
                if isinstance(op, ast.FloorDiv):
                    return l // r
                if isinstance(op, ast.Mod):
                    return l % r
            a, b = to_dim(l), to_dim(r)
            if isinstance(op, ast.Add):
                return a + b
            if isinstance(op, ast.Sub):
                return a - b
            if isinstance(op, ast.Mult):
                return a * b
            if isinstance(op, ast.Div):
                try:
                    return a / b
                except ZeroDivisionError:
                    raise Undecided(f"symbolic division {a}/{b}")
            if isinstance(op, ast.FloorDiv):
                try:
                    q = a / b
                except ZeroDivisionError:
                    raise Undecided(f"symbolic floor division {a}//{b}")
                if q.is_const() and q.value().denominator != 1:
                    return D(q.value().numerator // q.value().denominator)
                return q
            if isinstance(op, ast.Pow):
                if b.is_const() and b.value().denominator == 1 and b.value() >= 0:
                    return a ** int(b.value())
                raise Undecided("symbolic power")
            raise Undecided("numeric op")
        if isinstance(l, (tuple, list)) and isinstance(r, (tuple, list)) and isinstance(op, ast.Add):
            return type(l)(list(l) + list(r))
        if isinstance(op, ast.Mult):
            for a, b in ((l, r), (r, l)):
                if isinstance(a, (tuple, list)) and is_num(b) and D(b).is_const() and D(b).value().denominator == 1 and not isinstance(a, NTuple):
                    return type(a)(list(a) * int(D(b).value()))
        if isinstance(l, str) and isinstance(op, (ast.Add, ast.Mod)):
            return "<str>"
        raise Undecided(f"binary op on {type(l).__name__}, {type(r).__name__}")

    def ev_Subscript(s, e, env):
        v = s.ev(e.value, env)
        if isinstance(v, (tuple, list)):
            k = s.ev(e.slice, env) if not isinstance(e.slice, ast.Slice) else None
            if k is None:
                lo = s.ev(e.slice.lower, env) if e.slice.lower else None
                hi = s.ev(e.slice.upper, env) if e.slice.upper else None
                return v[s._pyint(lo):s._pyint(hi)]
            return v[s._pyint(k)]
        if isinstance(v, dict):
            k = s.ev(e.slice, env)
            if k not in v:
                raise PyRaise("KeyError", repr(k), s.site)
            return v[k]
        if isinstance(v, (Val, AtProxy, IdxArr)):
            key = s.index_key(e.slice, env)
            if isinstance(v, AtProxy):
                return AtProxy(v.val, key)
            return s.intr.index(s, v, key)
        raise Undecided(f"subscript of {type(v).__name__}")

    def _pyint(s, k):
        if k is None:
            return None
        if isinstance(k, int):
            return k
        if isinstance(k, Dim) and k.is_const() and k.value().denominator == 1:
            return int(k.value())
        raise Undecided("symbolic index into a Python sequence")

    def index_key(s, sl, env):
        elts = sl.elts if isinstance(sl, ast.Tuple) else [sl]
        key = []
        for x in elts:
            if isinstance(x, ast.Slice):
                if x.step is not None:
                    raise Undecided("slice step")
                key.append(("slice", s.ev(x.lower, env) if x.lower else None, s.ev(x.upper, env) if x.upper else None))
            else:
                v = s.ev(x, env)
                if v is None:
                    key.append(("none",))
                elif v is Ellipsis:
                    key.append(("ellipsis",))
                elif isinstance(v, (int, Dim)):
                    key.append(("int", v))
                elif isinstance(v, IdxArr):
                    key.append(("idx", v))
                elif isinstance(v, SymIndex):
                    key.append(("sym", v.var))
                elif isinstance(v, tuple) and all(isinstance(q, IdxArr) for q in v):
                    # result of jnp.ix_: an open mesh, array i lives on result axis i
                    key.extend(("idx", q, (i, len(v))) for i, q in enumerate(v))
                elif isinstance(v, Val):
                    raise Undecided("indexing with a traced array")
                else:
                    raise Undecided(f"index of type {type(v).__name__}")
        return key

    def ev_Call(s, e, env):
        # super() forms
        if isinstance(e.func, ast.Name) and e.func.id == "super":
            if e.args:
                c = s.ev(e.args[0], env)
                o = s.ev(e.args[1], env)
                return SuperProxy(o, c.name)
            return SuperProxy(env.selfobj, env.cls)
        f = s.ev(e.func, env)
        args = []
        for a in e.args:
            if isinstance(a, ast.Starred):
                args.extend(s.ev(a.value, env))
            else:
                args.append(s.ev(a, env))
        kw = {}
        for k in e.keywords:
            if k.arg is None:
                d = s.ev(k.value, env)
                if not isinstance(d, dict):
                    raise Undecided("** of non-dict")
                kw.update(d)
            else:
                kw[k.arg] = s.ev(k.value, env)
        return s.call(f, args, kw)


class Unknown:
    key = None      # (kind, repr(a), repr(b)) when the unknown is a comparison of sizes (see UnknownBranch)

    def __init__(s, why=""):
        s.why = why

    def __repr__(s):
        return f"Unknown({s.why})"

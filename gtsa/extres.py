"""Static resolution of third-party API names against the *installed* package sources (no import).

resolve("jax.util.unzip2") parses site-packages/jax/__init__.py (and sub-module files) and decides whether
the attribute chain is bound: import / from-import / assignment / def / class at module level, minus `del`,
minus entries of a module-level `_deprecations` table whose replacement is None (removed API).
"""
import ast
import glob
import os

_CACHE = {}


def site_packages():
    c = sorted(glob.glob("/venv/lib/python3*/site-packages"))
    return c[0] if c else None


def _module_file(sp, dotted):
    p = os.path.join(sp, *dotted.split("."))
    if os.path.isfile(p + ".py"):
        return p + ".py"
    if os.path.isfile(os.path.join(p, "__init__.py")):
        return os.path.join(p, "__init__.py")
    for ext in (".so", ".pyi"):
        g = glob.glob(p + "*" + ext)
        if g:
            return g[0]
    return None


def _bindings(path):
    """names bound at module level -> kind ; removed names (deprecation table)."""
    if path in _CACHE:
        return _CACHE[path]
    bound, removed = {}, set()
    if not path.endswith(".py"):
        _CACHE[path] = (None, removed)
        return _CACHE[path]
    import warnings
    with warnings.catch_warnings():
        warnings.simplefilter("ignore")
        src = open(path, encoding="utf-8").read()
        try:
            tree = ast.parse(src)
        except SyntaxError:
            import re
            # the installed package may use newer syntax (PEP 695 type parameters) than the analysing interpreter
            src2 = re.sub(r"^(\s*(?:async\s+)?def\s+\w+)\[[^\]\n]*\]\(", r"\1(", src, flags=re.M)
            src2 = re.sub(r"^(\s*class\s+\w+)\[[^\]\n]*\]", r"\1", src2, flags=re.M)
            src2 = re.sub(r"^type\s+(\w+)[^=\n]*=", r"\1 =", src2, flags=re.M)
            try:
                tree = ast.parse(src2)
            except SyntaxError:
                _CACHE[path] = (None, removed)
                return _CACHE[path]

    def visit(body, typecheck=False):
        for n in body:
            if isinstance(n, ast.ImportFrom):
                for a in n.names:
                    if a.name == "*":
                        bound["*"] = ("star", n.module, n.level)
                    else:
                        bound[a.asname or a.name] = ("from", n.module, a.name, n.level)
            elif isinstance(n, ast.Import):
                for a in n.names:
                    bound[(a.asname or a.name.split(".")[0])] = ("import", a.name)
            elif isinstance(n, (ast.FunctionDef, ast.ClassDef, ast.AsyncFunctionDef)):
                bound[n.name] = ("def",)
            elif isinstance(n, ast.Assign):
                v = n.value
                if isinstance(v, ast.Call) and isinstance(v.func, ast.Attribute) and v.func.attr == "attach" and len(v.args) >= 2 and isinstance(v.args[1], ast.List):
                    for e in v.args[1].elts:
                        if isinstance(e, ast.Constant) and isinstance(e.value, str):
                            bound[e.value] = ("lazy_sub",)
                for t in n.targets:
                    for x in ast.walk(t):
                        if isinstance(x, ast.Name):
                            bound[x.id] = ("assign",)
                    if isinstance(t, ast.Name) and t.id == "_deprecations" and isinstance(n.value, ast.Dict):
                        for k, v in zip(n.value.keys, n.value.values):
                            if isinstance(k, ast.Constant) and isinstance(v, ast.Tuple) and len(v.elts) == 2 and isinstance(v.elts[1], ast.Constant) and v.elts[1].value is None:
                                removed.add(k.value)
            elif isinstance(n, ast.AnnAssign) and isinstance(n.target, ast.Name):
                bound[n.target.id] = ("assign",)
            elif isinstance(n, ast.Delete):
                for t in n.targets:
                    if isinstance(t, ast.Name):
                        bound.pop(t.id, None)
            elif isinstance(n, ast.If):
                src = ast.unparse(n.test)
                if "TYPE_CHECKING" in src:
                    visit(n.orelse)
                else:
                    visit(n.body)
                    visit(n.orelse)
            elif isinstance(n, ast.Try):
                visit(n.body)
                for h in n.handlers:
                    visit(h.body)
                visit(n.orelse)
    visit(tree.body)
    _CACHE[path] = (bound, removed)
    return _CACHE[path]


def _init_imports_submodule(path, mod, name):
    if not path.endswith("__init__.py"):
        return False
    try:
        import warnings
        with warnings.catch_warnings():
            warnings.simplefilter("ignore")
            tree = ast.parse(open(path, encoding="utf-8").read())
    except (SyntaxError, OSError):
        return False
    full = mod + "." + name
    for n in ast.walk(tree):
        if isinstance(n, ast.Import):
            if any(a.name == full or a.name.startswith(full + ".") for a in n.names):
                return True
        elif isinstance(n, ast.ImportFrom):
            m = n.module or ""
            if n.level == 0 and (m == full or m.startswith(full + ".") or (m == mod and any(a.name == name for a in n.names))):
                return True
            if n.level == 1 and (m == name or m.startswith(name + ".") or (m == "" and any(a.name == name for a in n.names))):
                return True
    return False


def member(sp, mod, name, depth=0):
    """is `name` importable from / an attribute of module `mod`?  returns (ok, reason, module path if it is a module)"""
    f = _module_file(sp, mod)
    if f is None:
        return None, f"{mod} has no source file", None
    bound, removed = _bindings(f)
    if bound is None:
        return None, f"{mod} is a compiled module", None
    if name in removed:
        return False, f"{mod}.{name} is listed as removed in {mod}._deprecations", None
    sub = mod + "." + name
    if name in bound:
        b = bound[name]
        if b[0] == "from" and b[3] == 0 and b[1] and depth < 12:
            tgt = b[1] + "." + b[2]
            if _module_file(sp, tgt) is not None:
                return True, "module", tgt
            ok, why, _ = member(sp, b[1], b[2], depth + 1)
            if ok is False:
                return False, f"{mod}.{name} re-exports {tgt}: {why}", None
            return True, f"bound via {tgt}", None
        if b[0] == "import" and _module_file(sp, b[1]) is not None:
            return True, "module", b[1]
        if b[0] == "lazy_sub":
            if _module_file(sp, sub) is None:
                return False, f"{mod} lazily attaches {name} but {sub} does not exist", None
            return True, "lazy module", sub
        return True, f"bound ({b[0]})", (sub if _module_file(sp, sub) is not None else None)
    if _module_file(sp, sub) is not None:
        if _init_imports_submodule(f, mod, name):
            # `import pkg.sub [as x]` / `from pkg.sub import y` / `from . import sub` executed by the package's __init__ binds the
            # sub-module as an attribute of the package (the import system does that), whatever local name the statement uses
            return True, "module", sub
        return "submodule", f"{sub} exists but {mod}/__init__ does not bind it", sub
    return False, f"module {mod} (installed at {os.path.relpath(f, sp)}) has no attribute '{name}' and no sub-module '{name}'", None


def resolve(dotted, explicit_imports=()):
    """dotted: import path prefix + attribute chain as written in the library (alias expanded).
    returns (True/False/None, reason). None = cannot decide."""
    sp = site_packages()
    if sp is None:
        return None, "site-packages of the repository environment not found"
    parts = dotted.split(".")
    if parts[0] != "jax":
        return True, "not a jax name"
    if _module_file(sp, "jax") is None:
        return False, "jax is not installed"
    mod = "jax"
    for i, name in enumerate(parts[1:], start=1):
        ok, why, nxt = member(sp, mod, name)
        if ok is None:
            return None, why
        if ok is False:
            return False, why
        if ok == "submodule":
            full = mod + "." + name
            if any(e == full or e.startswith(full + ".") for e in explicit_imports):
                mod = full
                continue
            return None, f"{why}; it may still be bound by an import executed elsewhere during `import jax` (undecided)"
        if nxt is None:
            return True, f"{'.'.join(parts[:i + 1])}: {why}"
        mod = nxt
    return True, "module"

"""Obligation runner: verdicts, known findings, evidence, exit codes (DESIGN.md section 2.5)."""
import re as _re
import json
import os
import sys
import time
import traceback
import hashlib
from concurrent.futures import ProcessPoolExecutor

from . import nf, model
from .nf import Undecided
from .interp import PyRaise, AbstractError

VERIF = os.path.dirname(os.path.dirname(os.path.abspath(__file__)))
PROVED, REFUTED, UNDECIDED, ERROR = "PROVED", "REFUTED", "UNDECIDED", "ERROR"


class Refuted(Exception):
    """raised by an obligation body for rule violations with an exact syntactic witness."""

    def __init__(s, what, construct=None, detail=None, sigdata=None):
        super().__init__(what)
        s.what, s.construct, s.detail, s.sigdata = what, construct, detail, sigdata


class Ob:
    """One proof obligation <property / rule / anchor / context>."""

    def __init__(s, key, fn, rule, anchor, claimed=True, note="", group=None):
        s.key, s.fn, s.rule, s.anchor, s.claimed, s.note = key, fn, rule, anchor, claimed, note
        s.group = group or key.split("/")[0]


def _sig(text):
    """normalised signature of a finding: no line numbers, no fresh-variable ids, no hash-cons serials."""
    import re
    t = re.sub(r"#\d+", "#", text)
    t = re.sub(r"\b[a-z]\d+\b", "_", t)
    t = re.sub(r"line \d+", "line", t)
    t = re.sub(r"\s+", " ", t)
    return t.strip()


def _heads_of(netstr):
    import re
    return sorted(re.sub(r"#\d+", "#", h) for h in re.findall(r"([^\s\[\]]+)\[[^\]]*\]", netstr))


def _canon(x):
    """order- and index-name-insensitive form of a list of normal-form differences."""
    if isinstance(x, (list, tuple)):
        if x and all(isinstance(y, str) for y in x) and any(y in ("coef", "only_impl", "only_spec") for y in x):
            out = []
            for y in x:
                if "[" in y and "]" in y:
                    out.append("heads:" + ",".join(_heads_of(y)))
                else:
                    out.append(y)
            return "(" + "|".join(out) + ")"
        items = sorted(_canon(y) for y in x)
        return "[" + ";".join(items) + "]"
    if isinstance(x, dict):
        return "{" + ";".join(f"{k}={_canon(v)}" for k, v in sorted(x.items()) if k not in ("at", "call_stack", "more")) + "}"
    return _sig(str(x))


_ENTRY_KINDS = ("coef", "only_impl", "only_spec")


def _structured_names(detail):
    """detail = list of (invariant / field name, [normal-form differences]) -> the sorted set of names; None for any other shape"""
    if not isinstance(detail, (list, tuple)) or not detail:
        return None
    names = set()
    for item in detail:
        if not (isinstance(item, (list, tuple)) and len(item) == 2 and isinstance(item[0], str) and item[0] not in _ENTRY_KINDS):
            return None
        body = item[1]
        if isinstance(body, str):
            names.add(_sig(item[0]))        # e.g. ("write", "<what is written>")
            continue
        if not isinstance(body, (list, tuple)):
            return None
        # body: one difference entry (kind, ...) or a list of them
        names.add(_sig(item[0]))
    return sorted(names)


def finding_sig(detail):
    """Signature of a refutation, used only to recognise a *recorded* finding again.
    - a flat list of coefficient differences (e.g. F1: one coefficient Dx for Dy) is kept exactly (order / index names normalised);
    - a structured refutation  [(violated invariant, differences), ...]  is identified by the SET OF VIOLATED INVARIANTS only: the
      difference terms of derived fields depend on how unrelated code computes them and would make the recognition brittle under
      behaviour-preserving edits elsewhere.  A recorded finding matches when the violated set is a non-empty subset of the recorded
      one (see match_known), so an additional violated invariant at the same call site is still reported."""
    names = _structured_names(detail)
    if names is not None:
        return "names:" + ";".join(names)
    return _canon(detail)


def _parse_dim(text):
    import re
    from .dim import Dim, D
    ns = {n: Dim.sym(n) for n in set(re.findall(r"[A-Za-z_][A-Za-z_0-9]*", text))}
    return D(eval(text, {"__builtins__": {}}, ns))


def _models(facts):
    """assignments of 1..8 (1..6 / 1..4 for four / more symbols) to the size symbols that satisfy every fact, as (symbols, list of dicts); None when the facts cannot be
    evaluated (too many symbols, unparsable size)"""
    import itertools
    from .dim import D
    try:
        cons = [(k[0], _parse_dim(k[1]), _parse_dim(k[2]), v) for k, v in facts.items() if k[0] in ("lt", "le", "eq")]
    except Exception:
        return None
    syms = sorted(set().union(*[a.symbols() | b.symbols() for _, a, b, _ in cons])) if cons else []
    if len(syms) > 6:
        return None
    out = []
    rng = range(1, 9) if len(syms) <= 3 else range(1, 7) if len(syms) == 4 else range(1, 5)
    for vals in itertools.product(rng, repeat=len(syms)):
        m = {sy: D(v) for sy, v in zip(syms, vals)}
        ok = True
        for kind, a, b, v in cons:
            try:
                x, y = a.subs(m).value(), b.subs(m).value()
            except Exception:
                return None
            holds = (x < y) if kind == "lt" else (x <= y) if kind == "le" else (x == y)
            if holds != bool(v):
                ok = False
                break
        if ok:
            out.append(dict(zip(syms, vals)))
    return syms, out


def _feasible(facts):
    """Is there an assignment of positive integers to the size symbols that satisfies every fact?  (brute force over 1..4;
    anything that cannot be evaluated counts as feasible: an unexplored side of a branch would be a missed violation)"""
    r = _models(facts)
    return True if r is None else bool(r[1])


def _pinned(facts, key):
    """Does the assumed outcome pin a size symbol of the comparison to ONE value (`R > 1` false: R = 1)?  Such a side of the branch is
    code for one particular size; run on a generic symbol it would show shape differences that do not exist at that size."""
    r = _models(facts)
    if r is None or not r[1]:
        return False
    try:
        ks = _parse_dim(key[1]).symbols() | _parse_dim(key[2]).symbols()
    except Exception:
        return False
    return any(len({m[sy] for m in r[1]}) == 1 for sy in ks if sy in r[0])


def _implied(key, val):
    kind, a, b = key
    if kind == "lt":
        return ({("lt", a, b): True, ("le", a, b): True, ("le", b, a): False, ("lt", b, a): False}, (a, b)) if val else \
               ({("lt", a, b): False, ("le", b, a): True}, (b, a))
    return ({("le", a, b): True, ("lt", b, a): False}, (a, b)) if val else \
           ({("le", a, b): False, ("lt", b, a): True, ("le", b, a): True, ("lt", a, b): False}, (b, a))


_RANK = {REFUTED: 3, ERROR: 2, UNDECIDED: 1, PROVED: 0}


def run_one(ob, _extra=None, _le=(), _depth=0):
    """returns dict(key, verdict, rule, anchor, detail, sig, wall_s, funcs)"""
    t0 = time.time()
    nf.reset()
    from . import interp as _interp
    if _depth == 0:
        _interp.ALL_CALLS.clear()
    _interp.EXTRA_FACTS.clear()
    _interp.EXTRA_FACTS.update(_extra or {})
    for pair in _le:
        nf.ST.le_facts.add(pair)
    out = dict(key=ob.key, rule=ob.rule, anchor=ob.anchor, claimed=ob.claimed, group=ob.group)
    try:
        r = ob.fn()
        info = {}
        if isinstance(r, tuple):
            r, info = r
        out.update(info)
        if not r:
            out["verdict"] = PROVED
        else:
            out["verdict"] = REFUTED
            out["detail"] = r if isinstance(r, (list, dict, str)) else repr(r)
            out["sig"] = finding_sig(out["detail"])
    except AbstractError as e:
        out["verdict"] = REFUTED
        mod, fn, line = e.site
        out["construct"] = f"{_rel(mod)}::{fn}"
        out["detail"] = dict(kind=e.kind, message=e.msg, at=f"{_rel(mod)}:{line} in {fn}", call_stack=[f"{m}:{q}" for m, q in e.stack])
        out["sig"] = _sig(f"{e.kind}|{fn}|{e.msg}")
    except (nf.ShapeError, nf.LayoutError) as e:
        # raised while combining the implementation's results with each other / with the reference:
        # the returned arrays do not have the shape / component order the property prescribes
        out["verdict"] = REFUTED
        out["detail"] = dict(kind=type(e).__name__, message=str(e), where="result fields vs reference layout")
        out["sig"] = _sig(f"{type(e).__name__}|result|{e}")
    except PyRaise as e:
        out["verdict"] = REFUTED
        site = e.site or ("?", "?", 0)
        out["construct"] = f"{_rel(site[0])}::{site[1]}"
        out["detail"] = dict(kind="raises", exception=e.exc, message=e.msg, at=f"{_rel(site[0])}:{site[2]} in {site[1]}")
        out["sig"] = _sig(f"raises|{e.exc}|{site[1]}|{e.msg}")
    except Refuted as e:
        out["verdict"] = REFUTED
        if e.construct:
            out["construct"] = e.construct
        out["detail"] = dict(kind="rule", message=e.what, more=e.detail)
        out["sig"] = finding_sig(e.sigdata) if getattr(e, "sigdata", None) is not None else _sig(f"rule|{e.what}")
    except _interp.UnknownBranch as e:
        # a branch on sizes the context leaves open: decide the obligation under each feasible outcome (at most 3 nested
        # branches); the worst verdict counts, a refutation names the assumed outcome
        out["verdict"] = UNDECIDED
        out["detail"] = str(e)
        if _depth < 3:
            subs = []
            for val in (True, False):
                imp, le = _implied(e.key, val)
                facts = dict(e.facts)
                facts.update(_extra or {})
                facts.update(imp)
                if not _feasible(facts):
                    continue
                pinned = _pinned(facts, e.key)
                ex = dict(_extra or {})
                ex.update(imp)
                sub = run_one(ob, ex, tuple(_le) + (le,), _depth + 1)
                if pinned and sub["verdict"] in (REFUTED, ERROR):
                    # the assumed outcome pins a size to ONE value (`R > 1` false: R = 1): that side is code for one particular size; a proof
                    # on the generic symbol covers it, a difference may be an artefact of running special-size code on a generic symbol
                    sub["verdict"] = UNDECIDED
                    sub["detail"] = (f"{e}: the outcome `{e.key[1]} {'<' if e.key[0] == 'lt' else '<='} {e.key[2]}` = {val} is a single size and the generic-size run of "
                                     "that side differs from the reference (special-size code is decided only in the special-size contexts)")
                    sub.pop("sig", None)
                if sub["verdict"] == REFUTED and _re.search(r"\b(Inv|GInv|LnDet|Chol)\w*#\d+", json.dumps(sub.get("detail"), default=str)):
                    # the side of the branch that today's contexts never took differs from the reference by terms that contain
                    # inverses / log-determinants of composite expressions: a differently factored expression (Woodbury-type
                    # identities are outside the theory, DESIGN 12) cannot be told from a wrong one -> not decided
                    sub["verdict"] = UNDECIDED
                    sub["detail"] = (f"{e}: under the assumed outcome the result differs from the reference by terms with inverses / log-determinants "
                                     f"of composite expressions (differently factored expression; Woodbury-type identities are outside the theory)")
                    sub.pop("sig", None)
                sub["assumed"] = sub.get("assumed", []) + [f"{e.key[1]} {'<' if e.key[0] == 'lt' else '<='} {e.key[2]} is {val}"]
                subs.append(sub)
            _interp.EXTRA_FACTS.clear()
            if subs:
                worst = max(subs, key=lambda r: _RANK[r["verdict"]])
                worst["forked_on"] = str(e)
                worst["wall_s"] = round(time.time() - t0, 3)
                return worst
    except Undecided as e:
        out["verdict"] = UNDECIDED
        out["detail"] = str(e)
    except model.AnchorError as e:
        out["verdict"] = ERROR
        out["detail"] = f"anchor: {e}"
    except RecursionError as e:
        out["verdict"] = UNDECIDED
        out["detail"] = "recursion limit"
    except Exception as e:
        out["verdict"] = ERROR
        out["detail"] = "internal: " + "".join(traceback.format_exception_only(type(e), e)).strip() + " @ " + traceback.format_exc().strip().splitlines()[-3].strip()
    if not out.get("funcs"):
        out["funcs"] = sorted({f"{m}:{q}" for m, q in _interp.ALL_CALLS})
    out["wall_s"] = round(time.time() - t0, 3)
    out["stats"] = dict(nf.ST.stats)
    return out


def _rel(mod):
    try:
        return model.load().relpath(mod)
    except Exception:
        return str(mod)


_OBS = None


def _run_idx(i):
    return run_one(_OBS[i])


def run_all(obs, jobs=1):
    global _OBS
    _OBS = obs
    sys.setrecursionlimit(10000)
    if jobs <= 1 or len(obs) < 4:
        return [run_one(o) for o in obs]
    import multiprocessing as mp
    ctx = mp.get_context("fork")
    with ProcessPoolExecutor(max_workers=jobs, mp_context=ctx) as ex:
        return list(ex.map(_run_idx, range(len(obs)), chunksize=1))


def load_known():
    p = os.path.join(VERIF, "known_findings.json")
    if not os.path.exists(p):
        return []
    return json.load(open(p))["findings"]


def match_known(res, prop, known):
    for k in known:
        if k.get("status", "open") != "open":
            continue
        if k["property"] != prop or k.get("key") != res["key"]:
            continue
        ks, rs = k.get("sig"), res.get("sig", "")
        if ks is None:
            continue
        if ks == rs:
            return k
        if ks.startswith("names:") and rs.startswith("names:"):
            kn, rn = set(ks[6:].split(";")), set(rs[6:].split(";"))
            if rn and rn <= kn:
                return k
    return None


def finish(prop, tier, obs, results, level, floors, t0, extra_cov=None, assumptions=None, trusted=None, explanation=""):
    """print verdict lines, write evidence + replay files, return exit code."""
    known = load_known()
    seed = int(os.environ.get("VERIF_SEED", "0") or 0)
    selftest_mode = bool(os.environ.get("GTSA_SELFTEST"))
    outdir = VERIF if not selftest_mode else os.path.join(model.load().repo, "_gtsa_out")
    os.makedirs(os.path.join(outdir, "evidence"), exist_ok=True)
    os.makedirs(os.path.join(outdir, "replay"), exist_ok=True)
    viol, knownhits, incomplete = [], [], []
    by = {PROVED: [], REFUTED: [], UNDECIDED: [], ERROR: []}
    for r in results:
        by[r["verdict"]].append(r)
    for r in results:
        if r["verdict"] == REFUTED:
            k = match_known(r, prop, known)
            if k is not None:
                knownhits.append((r, k))
            else:
                viol.append(r)      # a definite refutation is reported whether or not the obligation is claimed
        elif r["verdict"] == UNDECIDED and r["claimed"]:
            incomplete.append(r)
        elif r["verdict"] == ERROR:
            incomplete.append(r)
    # floors (vacuity guards)
    floor_fail = []
    measured = dict(obligations=len(results))
    groups = {}
    for r in results:
        groups[r["group"]] = groups.get(r["group"], 0) + 1
    measured.update({f"group:{g}": n for g, n in groups.items()})
    for name, minimum in (floors or {}).items():
        if measured.get(name, 0) < minimum:
            floor_fail.append(f"{name}: measured {measured.get(name, 0)} < floor {minimum}")
    for r, k in knownhits:
        print(f"KNOWN-FINDING: property={prop} {k['id']} {r['key']}: {k['what']}")
    seen_constructs = {}
    for r in viol:
        h = hashlib.sha1(r["key"].encode()).hexdigest()[:10]
        path = os.path.join(outdir, "replay", f"{prop}_{h}.json")
        json.dump(dict(property=prop, key=r["key"], rule=r["rule"], anchor=r["anchor"], construct=r.get("construct", r["anchor"]),
                       detail=r.get("detail"), sig=r.get("sig"), functions=r.get("funcs")), open(path, "w"), indent=1, default=str)
        d = r.get("detail")
        where = r.get("construct", r["anchor"])
        gk = (where, r["rule"])
        if gk in seen_constructs:
            seen_constructs[gk].append(r["key"])
            continue
        seen_constructs[gk] = []
        fl = [f for f in (r.get("funcs") or []) if not f.endswith(("__post_init__", ".R", ".D", ".Dx", ".Dy", ".Dk", ".Da", ".Dphi", ".integration_dict"))]
        print(f"REFUTED {r['key']} rule={r['rule']} construct={where}" + (f" functions-analysed=[{', '.join(fl[:10])}]" if fl else ""))
        print("   " + json.dumps(d, default=str)[:1500])
        print(f"VIOLATION property={prop} replay={path}")
    for (where, rule), more in seen_constructs.items():
        if more:
            print(f"   (same construct {where} also refuted in {len(more)} more contexts: {', '.join(more[:6])}{' ...' if len(more) > 6 else ''})")
    for r in incomplete:
        print(f"ANALYSIS-INCOMPLETE property={prop} obligation={r['key']} verdict={r['verdict']}: {str(r.get('detail'))[:600]}")
    for f in floor_fail:
        print(f"ANALYSIS-INCOMPLETE property={prop} vacuity-floor {f}")
    claimed = [r for r in results if r["claimed"]]
    discharged = [r for r in claimed if r["verdict"] == PROVED]
    unclaimed = [r for r in results if not r["claimed"]]
    samples = []
    for r in (by[PROVED][:3] + [x for x, _ in knownhits][:2] + by[UNDECIDED][:1]):
        samples.append({k: r.get(k) for k in ("key", "rule", "anchor", "verdict", "detail", "funcs", "wall_s") if r.get(k) is not None})
    cov = dict(
        obligations=len(claimed) - len([1 for r, _ in knownhits if r["claimed"]]),
        discharged=len(discharged),
        checker_cmd=f"python3 check.py --property {prop} --tier {tier}",
        trusted_base=trusted or TRUSTED,
        explanation=explanation,
        evaluations=len(results),
        distinct_nontrivial=len({r["key"] for r in results if r["verdict"] in (PROVED, REFUTED)}),
        rule="one obligation per <rule / anchor / context>; non-trivial = decided (PROVED or REFUTED) by the analysis",
        samples=samples or [dict(note="no obligations")],
        verdicts={k: len(v) for k, v in by.items()},
        refuted_known=[dict(key=r["key"], finding=k["id"]) for r, k in knownhits],
        unclaimed=[dict(key=r["key"], verdict=r["verdict"], why=str(r.get("detail"))[:200]) for r in unclaimed],
        floors=floors or {},
        measured=measured,
        modules_parsed=sorted(model.load().modules),
        repo_digest=model.load().digest,
        functions_analysed=sorted({f for r in results for f in (r.get("funcs") or [])})[:400],
        obligation_keys=[r["key"] for r in results],
        exhaustive=True,
    )
    if extra_cov:
        cov.update(extra_cov)
    st = os.environ.get("GTSA_SELFTEST_RESULT")
    if st:
        cov["selftest"] = json.loads(st)
    ev = dict(property_id=prop, tier=tier, seed=seed, level=level, coverage=cov,
              assumptions=assumptions or [], wall_s=round(time.time() - t0, 3), violations=len(viol))
    json.dump(ev, open(os.path.join(outdir, "evidence", f"{prop}.json"), "w"), indent=1, default=str)
    print(f"[{prop}/{tier}] obligations={len(results)} proved={len(by[PROVED])} refuted={len(by[REFUTED])} "
          f"(known={len(knownhits)}) undecided={len(by[UNDECIDED])} errors={len(by[ERROR])} wall={ev['wall_s']}s")
    if viol:
        return 1
    if incomplete or floor_fail:
        return 2
    return 0


TRUSTED = [
    "CPython ast module (parsing of /repo sources)",
    "gtsa/nf.py: shape/layout discipline and rewrite rules 1-9 (DESIGN.md 2.3/2.4)",
    "gtsa/intrinsics.py: transfer functions mirroring documented NumPy/JAX semantics",
    "gtsa/wick.py and the reference terms in gtsa/build.py / gtsa/props (written from the mathematics)",
    "gtsa/model.py: model of dataclasses + utils/dataclass.py wrapper, C3 MRO",
    "contract table: cross-object size equalities the API presupposes",
]

"""Program model of /repo/gaussian_toolbox built from the source text on every run (ast only).

Module table with import aliases, class table with statically computed C3 MRO, dataclass field tables
(following the `dataclasses` inheritance rules and the repo's `utils/dataclass.py` wrapper), properties,
method resolution.  Anchors are qualified names; a vanished anchor raises AnchorError (exit 2).
"""
import ast
import os
import hashlib

REPO = os.environ.get("GTSA_REPO", "/repo")
PKG = "gaussian_toolbox"


class AnchorError(Exception):
    pass


class ClassInfo:
    def __init__(s, name, mod, node):
        s.name, s.mod, s.node = name, mod, node
        s.bases = []          # resolved class names (library) or external dotted names
        s.methods = {}        # name -> FunctionDef
        s.ann = []            # own annotated fields: (name, annotation str, value node or None)
        s.consts = {}         # class-level constants  NAME = <expr>  (not annotated: not dataclass fields)
        s.is_dataclass = False
        s.dc_kwargs = {}

    def __repr__(s):
        return f"<class {s.mod}.{s.name}>"


class Program:
    def __init__(s, repo=None):
        s.repo = repo or REPO
        s.modules = {}      # modname ("factor", "utils.linalg", ...) -> ast.Module
        s.src = {}          # modname -> source text
        s.path = {}         # modname -> file path
        s.aliases = {}      # modname -> {local name: ("lib", modname) | ("libobj", modname, name) | ("ext", dotted)}
        s.classes = {}      # class name -> ClassInfo   (class names are unique in the package)
        s.functions = {}    # (modname, fname) -> FunctionDef
        s.globals = {}      # (modname, name) -> value expression of a module-level assignment  NAME = <expr>
        s.digest = None
        s._load()

    # ------------------------------------------------------------------ loading
    def _load(s):
        root = os.path.join(s.repo, PKG)
        if not os.path.isdir(root):
            raise AnchorError(f"package directory {root} not found")
        h = hashlib.sha256()
        for dp, dn, fn in sorted(os.walk(root)):
            dn.sort()
            for f in sorted(fn):
                if not f.endswith(".py"):
                    continue
                p = os.path.join(dp, f)
                rel = os.path.relpath(p, root)[:-3].replace(os.sep, ".")
                if rel.endswith("__init__"):
                    rel = rel[: -len("__init__")].rstrip(".") or "__init__"
                txt = open(p, encoding="utf-8").read()
                h.update(rel.encode() + b"\0" + txt.encode())
                import warnings
                with warnings.catch_warnings():
                    warnings.simplefilter("ignore")
                    s.modules[rel] = ast.parse(txt, filename=p)
                s.src[rel] = txt
                s.path[rel] = p
        s.digest = h.hexdigest()
        for m, t in s.modules.items():
            s.aliases[m] = {}
            for n in t.body:
                s._scan_import(m, n, s.aliases[m])
        for m, t in s.modules.items():
            for n in t.body:
                if isinstance(n, ast.ClassDef):
                    ci = ClassInfo(n.name, m, n)
                    for d in n.decorator_list:
                        dn_ = d.func if isinstance(d, ast.Call) else d
                        if s._dotted(dn_) in ("dataclass",) and s.aliases[m].get("dataclass", (None,))[0] in ("libobj",):
                            ci.is_dataclass = True
                            if isinstance(d, ast.Call):
                                ci.dc_kwargs = {k.arg: ast.literal_eval(k.value) for k in d.keywords}
                    for b in n.body:
                        if isinstance(b, ast.FunctionDef):
                            ci.methods[b.name] = b
                        elif isinstance(b, ast.AnnAssign) and isinstance(b.target, ast.Name):
                            ci.ann.append((b.target.id, ast.unparse(b.annotation), b.value))
                        elif isinstance(b, ast.Assign) and len(b.targets) == 1 and isinstance(b.targets[0], ast.Name):
                            ci.consts[b.targets[0].id] = b.value
                    if n.name in s.classes:
                        raise AnchorError(f"duplicate class name {n.name}")
                    s.classes[n.name] = ci
                elif isinstance(n, ast.FunctionDef):
                    s.functions[(m, n.name)] = n
                elif isinstance(n, ast.Assign) and len(n.targets) == 1 and isinstance(n.targets[0], ast.Name) and n.targets[0].id != "__all__":
                    s.globals[(m, n.targets[0].id)] = n.value
                elif isinstance(n, ast.AnnAssign) and isinstance(n.target, ast.Name) and n.value is not None:
                    s.globals[(m, n.target.id)] = n.value
        for ci in s.classes.values():
            for b in ci.node.bases:
                r = s.resolve_static(ci.mod, b)
                if r and r[0] == "class":
                    ci.bases.append(r[1])
                else:
                    ci.bases.append("ext:" + ast.unparse(b))

    @staticmethod
    def _dotted(n):
        if isinstance(n, ast.Name):
            return n.id
        if isinstance(n, ast.Attribute):
            b = Program._dotted(n.value)
            return None if b is None else b + "." + n.attr
        return None

    def _abs_module(s, cur, level, module):
        """absolute dotted path (inside or outside the package) of a from-import."""
        if level == 0:
            return module
        parts = ([] if cur == "__init__" else cur.split("."))
        # cur is a module (not package) unless __init__: its package is parts[:-1]
        pkg = parts[:-1] if cur != "__init__" else []
        for _ in range(level - 1):
            pkg = pkg[:-1]
        base = ".".join([PKG] + pkg)
        return base + ("." + module if module else "")

    def _lib_name(s, dotted):
        if dotted == PKG:
            return "__init__"
        if dotted.startswith(PKG + "."):
            return dotted[len(PKG) + 1:]
        return None

    def _scan_import(s, cur, n, table):
        if isinstance(n, ast.Import):
            for a in n.names:
                name = a.asname or a.name.split(".")[0]
                target = a.name if a.asname else a.name.split(".")[0]
                lib = s._lib_name(target)
                table[name] = ("lib", lib) if lib is not None else ("ext", target)
        elif isinstance(n, ast.ImportFrom):
            base = s._abs_module(cur, n.level, n.module)
            for a in n.names:
                name = a.asname or a.name
                full = base + "." + a.name
                lib = s._lib_name(full)
                if lib is not None and lib in s.modules:
                    table[name] = ("lib", lib)
                elif s._lib_name(base) is not None:
                    table[name] = ("libobj", s._lib_name(base), a.name)
                else:
                    table[name] = ("ext", full)

    # ------------------------------------------------------------------ resolution
    def resolve_static(s, mod, node):
        """resolve an expression node naming a class / function / module at module level."""
        d = s._dotted(node)
        if d is None:
            return None
        parts = d.split(".")
        head = parts[0]
        cur = None
        if head in s.classes and s.classes[head].mod == mod:
            cur = ("class", head)
        elif (mod, head) in s.functions:
            cur = ("func", mod, head)
        elif head in s.aliases.get(mod, {}):
            a = s.aliases[mod][head]
            if a[0] == "lib":
                cur = ("mod", a[1])
            elif a[0] == "libobj":
                cur = s._member(a[1], a[2])
            else:
                cur = ("ext", a[1])
        if cur is None:
            return None
        for p in parts[1:]:
            if cur[0] == "mod":
                cur = s._member(cur[1], p)
            elif cur[0] == "ext":
                cur = ("ext", cur[1] + "." + p)
            else:
                return None
            if cur is None:
                return None
        return cur

    def _member(s, modname, name):
        if name in s.classes and s.classes[name].mod == modname:
            return ("class", name)
        if (modname, name) in s.functions:
            return ("func", modname, name)
        if (modname, name) in s.globals:
            return ("global", modname, name)
        sub = (modname + "." + name) if modname != "__init__" else name
        if sub in s.modules:
            return ("mod", sub)
        a = s.aliases.get(modname, {}).get(name)
        if a:
            if a[0] == "lib":
                return ("mod", a[1])
            if a[0] == "libobj":
                return s._member(a[1], a[2])
            return ("ext", a[1])
        return None

    # ------------------------------------------------------------------ classes
    def cls(s, name):
        if name not in s.classes:
            raise AnchorError(f"class {name} not found in {PKG}")
        return s.classes[name]

    def mro(s, name):
        def merge(seqs):
            res = []
            seqs = [list(x) for x in seqs if x]
            while seqs:
                for q in seqs:
                    h = q[0]
                    if not any(h in t[1:] for t in seqs):
                        break
                else:
                    raise AnchorError(f"inconsistent MRO for {name}")
                res.append(h)
                seqs = [[x for x in q if x != h] for q in seqs]
                seqs = [q for q in seqs if q]
            return res
        ci = s.cls(name)
        bs = [b for b in ci.bases if not b.startswith("ext:")]
        return [name] + merge([s.mro(b) for b in bs] + [bs])

    def is_subclass(s, name, base):
        return base in s.mro(name)

    def find_method(s, clsname, meth, after=None):
        """(owner class, FunctionDef) following the MRO; `after`: start after that class (super())."""
        chain = s.mro(clsname)
        if after is not None:
            chain = chain[chain.index(after) + 1:]
        for k in chain:
            f = s.classes[k].methods.get(meth)
            if f is not None:
                return k, f
        return None

    def method(s, clsname, meth):
        r = s.find_method(clsname, meth)
        if r is None:
            raise AnchorError(f"method {clsname}.{meth} not found")
        return r

    def overriders(s, meth):
        return sorted(c for c, ci in s.classes.items() if meth in ci.methods)

    def subclasses(s, base):
        return sorted(c for c in s.classes if base in s.mro(c))

    @staticmethod
    def decorators(fn):
        return [ast.unparse(d) for d in fn.decorator_list]

    def is_property(s, fn):
        return "property" in s.decorators(fn)

    def is_static(s, fn):
        return "staticmethod" in s.decorators(fn)

    def is_classmethod(s, fn):
        return "classmethod" in s.decorators(fn)

    def is_abstract(s, fn):
        return "abstractmethod" in s.decorators(fn)

    def field_table(s, clsname):
        """ordered dict name -> dict(init, default ('REQUIRED' | 'NONE' | 'UNSET' | ast node), ann, owner)."""
        tab = {}
        for k in reversed(s.mro(clsname)):
            ci = s.classes[k]
            if not ci.is_dataclass:
                continue
            for name, ann, val in ci.ann:
                init = True
                default = "REQUIRED"
                if val is not None:
                    if isinstance(val, ast.Call) and s._dotted(val.func) in ("field", "dataclasses.field"):
                        kw = {q.arg: q.value for q in val.keywords}
                        if "init" in kw:
                            init = bool(ast.literal_eval(kw["init"]))
                        if "default" in kw:
                            dv = kw["default"]
                            default = "NONE" if (isinstance(dv, ast.Constant) and dv.value is None) else dv
                        elif "default_factory" in kw:
                            default = kw["default_factory"]
                        else:
                            default = "REQUIRED" if init else "UNSET"
                    elif isinstance(val, ast.Constant) and val.value is None:
                        default = "NONE"
                    else:
                        default = val
                tab[name] = dict(init=init, default=default, ann=ann, owner=k)
        return tab

    def qualname_at(s, mod, lineno):
        best = None
        for n in ast.walk(s.modules[mod]):
            if isinstance(n, (ast.FunctionDef, ast.ClassDef)) and n.lineno <= lineno <= (n.end_lineno or n.lineno):
                if best is None or n.lineno >= best.lineno:
                    best = n
        return best.name if best else "<module>"

    def relpath(s, mod):
        return os.path.relpath(s.path[mod], s.repo)


_CACHE = {}


def load(repo=None):
    repo = repo or REPO
    if repo not in _CACHE:
        _CACHE[repo] = Program(repo)
    return _CACHE[repo]

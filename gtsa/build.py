"""Construction of abstract input objects (generic tensors + representation-invariant declarations).

Objects are always built through the *analysed* constructors (`Interp.construct` runs the real
`__post_init__`), so derived fields (nu, lnZ, ln_beta, Lambda ...) carry the normal forms the library
computes; only the primary parameters are generic atoms.
"""
from . import nf
from .nf import Val
from .dim import Dim, D, LOG2PI
from .interp import Interp, IdxArr
from . import model


def sym(name):
    return Dim.sym(name)


def declare_pair(S, L, lds=None):
    """heads S and L are mutually inverse symmetric matrices; LnDet(S) = lds (representation invariant)."""
    nf.ST.head[S].sym = True
    nf.ST.head[L].sym = True
    nf.ST.pair[S] = L
    nf.ST.pair[L] = S
    if lds is not None:
        nf.ST.lndet[S] = (1, lds)
        nf.ST.lndet[L] = (-1, lds)


def linalg_summary(I):
    """utils/linalg.py is analysed separately (C02-2); everywhere else its functions are replaced by their
    summary (Inv(A), LnDet(A))."""
    def inv(I_, selfobj, args, kw):
        a = args[0] if args else kw["A"]
        return nf.inverse(a, "invert_matrix")

    def invd(I_, selfobj, args, kw):
        """invert_diagonal(A) = (1 / diag(A)) * I,  sum_i log A_ii  - whatever A is.  For a matrix with the diagonal precondition this
        IS (Inv(A), LnDet(A)) (the same normal form nf.inverse produces for d*delta); for any other matrix it is not, and compares unequal."""
        a = args[0] if args else kw["A"]
        nt = nf.normalize(a)
        A_, B_ = a.axes[-2], a.axes[-1]
        if nt and A_ and B_ and nf._as_diagonal(nt, A_, B_) is not None:
            return nf.inverse(a, "invert_diagonal")
        dvec = nf.diagonal(a, -2, -1)
        rec = nf.elementwise("Recip", dvec)
        inv = nf.mul(nf.expand_dims(rec, ["k"] * len(rec.axes) + [None]), nf.eye(a.shape[-1]))
        return inv, nf.sum_axis(nf.elementwise("Log", dvec), -1)
    I.hooks[("utils.linalg", "invert_matrix")] = inv
    I.hooks[("utils.linalg", "invert_diagonal")] = invd


def normal_summary(I):
    """experimental/misc.py normal_cdf / normal_pdf are replaced by the standard normal cdf / pdf (opaque heads Phi / phi with
    Phi(-x) = 1 - Phi(x), phi(-x) = phi(x)); the numerical guard inside misc.normal_cdf is not analysed."""
    from .intrinsics import elementwise_inf

    def cdf(I_, selfobj, args, kw):
        return elementwise_inf("Phi", args[0])

    def pdf_(I_, selfobj, args, kw):
        return elementwise_inf("phi", args[0])
    I.hooks[("experimental.misc", "normal_cdf")] = cdf
    I.hooks[("experimental.misc", "normal_pdf")] = pdf_

    def binom(I_, selfobj, args, kw):
        """misc.binom(n, k) (exp / gammaln / round) is replaced by the binomial coefficient for a concrete n and a constant column k"""
        from .intrinsics import const_rows, rows_to_val
        from math import comb
        from .interp import is_num
        n, k = args
        from .interp import IdxArr as _IdxArr
        if isinstance(k, _IdxArr):
            from .intrinsics import _arr
            k = _arr(k)
        if not (is_num(n) and D(n).is_const() and D(n).value().denominator == 1):
            raise nf.Undecided("binom with a non-concrete upper argument")
        n = int(D(n).value())
        if is_num(k):
            return comb(n, int(D(k).value()))
        rows = const_rows(k)
        if rows is None or any(r.denominator != 1 or r < 0 for r in rows):
            raise nf.Undecided("binom with a non-constant lower argument")
        return rows_to_val([comb(n, int(r)) for r in rows], k)
    I.hooks[("experimental.misc", "binom")] = binom


def new_interp(facts=None, flags=None, repo=None, summaries=True):
    prog = model.load(repo)
    I = Interp(prog, facts, flags)
    if summaries:
        linalg_summary(I)
        normal_summary(I)
    return I


def factor(I, R, Dd, name="f", cls="ConjugateFactor", nu=True, ln_beta=True):
    kw = dict(Lambda=nf.atom(f"Lambda({name})", [R, Dd, Dd], sym=True, owner=name))
    if nu:
        kw["nu"] = nf.atom(f"nu({name})", [R, Dd], owner=name)
    if ln_beta:
        kw["ln_beta"] = nf.atom(f"ln_beta({name})", [R], owner=name)
    return I.construct(cls, kw)


def onerank(I, R, Dd, name="f", g=True, nu=True, ln_beta=True):
    kw = dict(v=nf.atom(f"v({name})", [R, Dd], owner=name))
    if g:
        kw["g"] = nf.atom(f"g({name})", [R], owner=name)
    if nu:
        kw["nu"] = nf.atom(f"nu({name})", [R, Dd], owner=name)
    if ln_beta:
        kw["ln_beta"] = nf.atom(f"ln_beta({name})", [R], owner=name)
    return I.construct("OneRankFactor", kw)


def linear_factor(I, R, Dd, name="f", ln_beta=True):
    kw = dict(nu=nf.atom(f"nu({name})", [R, Dd], owner=name))
    if ln_beta:
        kw["ln_beta"] = nf.atom(f"ln_beta({name})", [R], owner=name)
    return I.construct("LinearFactor", kw)


def constant_factor(I, R, Dd, name="f"):
    return I.construct("ConstantFactor", dict(ln_beta=nf.atom(f"ln_beta({name})", [R], owner=name), num_dim=Dd))


def measure(I, R, Dd, name="u", warm=False, cls="GaussianMeasure", diag=False):
    """cold (Sigma None) or warm (Sigma, log-determinants given and consistent) Gaussian measure."""
    kw = dict(nu=nf.atom(f"nu({name})", [R, Dd], owner=name), ln_beta=nf.atom(f"ln_beta({name})", [R], owner=name))
    if diag:
        kw["Lambda"] = diag_matrix(f"Lambda({name})", R, Dd)
    else:
        kw["Lambda"] = nf.atom(f"Lambda({name})", [R, Dd, Dd], sym=True, owner=name)
    if warm:
        if diag:
            raise nf.Undecided("warm diagonal measure")
        kw["Sigma"] = nf.atom(f"Sigma({name})", [R, Dd, Dd], sym=True, owner=name)
        lds = nf.atom(f"ln_det_Sigma({name})", [R], owner=name)
        kw["ln_det_Sigma"] = lds
        kw["ln_det_Lambda"] = nf.neg(lds)
        declare_pair(f"Sigma({name})", f"Lambda({name})", f"ln_det_Sigma({name})")
    return I.construct(cls, kw)


def diag_matrix(name, R, Dd):
    """a matrix atom with the diagonal precondition:  name[r,a,b] = diag(name)[r,a] * delta[a,b]"""
    vec = nf.atom(f"diag({name})", [R, Dd], owner=name.split("(")[-1].rstrip(")"))
    e = nf.eye(Dd)
    return nf.mul(nf.expand_dims(vec, ["k"] * len(vec.axes) + [None]), e)


def pdf(I, R, Dd, name="p", cls="GaussianPDF", args="full", diag=False):
    """density; args: 'Sigma' | 'Sigma+Lambda' | 'full' (Sigma, Lambda, ln_det_Sigma all given, consistent)."""
    kw = dict(mu=nf.atom(f"mu({name})", [R, Dd], owner=name))
    if diag:
        kw["Sigma"] = diag_matrix(f"Sigma({name})", R, Dd)
        if args == "Sigma+Lambda":
            # consistent user input for a diagonal covariance: Lambda = diag(1 / diag(Sigma)); ln_det_Sigma left to the constructor
            vec = nf.atom(f"diag(Sigma({name}))", [R, Dd], owner=name)
            kw["Lambda"] = nf.mul(nf.expand_dims(nf.elementwise("Recip", vec), ["k", "k", None]), nf.eye(Dd))
        elif args != "Sigma":
            raise nf.Undecided("diag pdf with explicit Lambda and log-determinant")
        return I.construct(cls, kw)
    kw["Sigma"] = nf.atom(f"Sigma({name})", [R, Dd, Dd], sym=True, owner=name)
    if args in ("Sigma+Lambda", "full"):
        kw["Lambda"] = nf.atom(f"Lambda({name})", [R, Dd, Dd], sym=True, owner=name)
        declare_pair(f"Sigma({name})", f"Lambda({name})", f"ln_det_Sigma({name})" if args == "full" else None)
        if args == "full":
            kw["ln_det_Sigma"] = nf.atom(f"ln_det_Sigma({name})", [R], owner=name)
    return I.construct(cls, kw)


def conditional(I, R, Dy, Dx, name="c", cls="ConditionalGaussianPDF", args="full", b=True):
    kw = {}
    tab = I.prog.field_table(cls)
    if tab.get("M", {}).get("init"):
        kw["M"] = nf.atom(f"M({name})", [R, Dy, Dx], owner=name)
        if b:
            kw["b"] = nf.atom(f"b({name})", [R, Dy], owner=name)
    diag = "Diag" in cls
    if diag:
        # precision-only route of the diagonal classes when the context asks for it (found by the mutation sweep: the label
        # "@Lambda" used to build these classes from Sigma all the same, so their Lambda branch was never analysed)
        if args == "Lambda" and tab.get("Lambda", {}).get("init"):
            kw["Lambda"] = diag_matrix(f"Lambda({name})", R, Dy)
        else:
            kw["Sigma"] = diag_matrix(f"Sigma({name})", R, Dy)
        o = I.construct(cls, kw)
        o.meta["given"] = {k: v for k, v in kw.items() if k in ("M", "b")}
        return o
    parts = set(args.split("+")) if args != "full" else {"Sigma", "Lambda", "lndet"}
    if "Sigma" in parts:
        kw["Sigma"] = nf.atom(f"Sigma({name})", [R, Dy, Dy], sym=True, owner=name)
    if "Lambda" in parts:
        kw["Lambda"] = nf.atom(f"Lambda({name})", [R, Dy, Dy], sym=True, owner=name)
    if "lndet" in parts:
        kw["ln_det_Sigma"] = nf.atom(f"ln_det_Sigma({name})", [R], owner=name)
    # consistent user input: the given matrices are mutually inverse, the given log-determinant is that of Sigma
    if "Sigma" in parts and "Lambda" in parts:
        declare_pair(f"Sigma({name})", f"Lambda({name})", f"ln_det_Sigma({name})" if "lndet" in parts else None)
    elif "lndet" in parts and "Sigma" in parts:
        nf.ST.head[f"Sigma({name})"].sym = True
        nf.ST.lndet[f"Sigma({name})"] = (1, f"ln_det_Sigma({name})")
    elif "lndet" in parts and "Lambda" in parts:
        nf.ST.lndet[f"Lambda({name})"] = (-1, f"ln_det_Sigma({name})")
    o = I.construct(cls, kw)
    o.meta["given"] = dict(kw)
    return o


def points(name, N, Dd):
    return nf.atom(name, [N, Dd])


def indices(name, size, distinct=False):
    """a generic index list; distinct=True: no repeated entries (coordinate lists of get_marginal / condition_on)"""
    a = IdxArr(name, size, kind="generic")
    a.distinct = bool(distinct)
    return a


# -------------------------------------------------------------------------- reference terms

def normal_logpdf(x, mu, Lam, lds, dimS, layout="rn"):
    """ln N(x_n; mu_r, Lam_r^-1) for x [N,D], mu [R,D], Lam [R,D,D], lds [R] -> [R,N];  dimS = dim of the covariance."""
    dx = nf.add(nf.expand_dims(x, [None]), nf.expand_dims(mu, ["k", None]), -1)      # [R,N,D]
    q = nf.einsum("rnd,rde,rne->rn", dx, Lam, dx, what="normal-logpdf")
    c = nf.add(nf.expand_dims(lds, ["k", None]), nf.const(D(dimS) * LOG2PI))
    return nf.scale(nf.add(q, c), D(-1) / 2)


def factor_ln(x, Lam, nu, lb):
    """ln f_r(x_n) = -1/2 x'Lam x + nu'x + ln_beta  -> [R,N]"""
    q = nf.einsum("nd,rde,ne->rn", x, Lam, x, what="factor-ln")
    l = nf.einsum("rd,nd->rn", nu, x, what="factor-ln")
    return nf.add(nf.add(nf.scale(q, D(-1) / 2), l), nf.expand_dims(lb, ["k", None]))

"""C07 - joint transformation p(x,y) = p(y|x) p(x): mean, covariance / precision blocks (x first), log-determinant."""
from .. import nf, build, model
from ..nf import Val, Undecided
from ..dim import Dim, D
from ..build import sym
from ..core import Ob, Refuted
from .common import funcs_of
from . import drivers
from .drivers import cond_params, setup_cond

PROP = "C07"
C = "gaussian_toolbox/conditional.py"


def tile_c(v, Rc):
    """[Rx, ...] -> [Rc, Rx, ...] replicated over the conditional index."""
    k = len(v.axes)
    return nf.tile(nf.expand_dims(v, [None]), [Rc] + [1] * k)


def tile_x(v, Rx):
    """[Rc, ...] -> [Rc, Rx, ...] replicated over the prior index."""
    k = len(v.axes)
    return nf.tile(nf.expand_dims(v, ["k", None]), [1, Rx] + [1] * (k - 1))


def joint_reference(c, px, sizes):
    """reference joint of y|x ~ N(Mx+b, S), x ~ N(mx, Sx) in layout Rc (x) Rx, x first."""
    Rc, Rx, Dy, Dx = sizes
    M, b, S, L, lds = cond_params(c, Rc, Dy, Dx)
    mx, Sx, Lx, ldsx = px.f["mu"], px.f["Sigma"], px.f["Lambda"], px.f["ln_det_Sigma"]
    R = Rc * Rx
    flat = drivers.flat2
    # mean
    my = nf.einsum("cyx,rx->cry", M, mx)
    if b is not None:
        my = nf.add(my, nf.expand_dims(b, ["k", None]))
    my = nf.add(my, nf.scale(tile_x(tile_c(nf.scale(mx, 0), Rc)[:0] if False else nf.zeros([Rc, Rx, Dy]), 1), 0)) if False else my
    mu_x = flat(tile_c(mx, Rc))
    mu_y = _bc(my, Rc, Rx)
    mu = nf.concat([mu_x, flat(mu_y)], 1)
    # covariance
    MS = nf.einsum("cyx,rxz->cryz", M, Sx)                       # Cov(y,x)
    MSM = nf.einsum("cryz,cwz->cryw", MS, M)
    Sy = nf.add(nf.expand_dims(S, ["k", None]), MSM)
    Sxx = flat(tile_c(Sx, Rc))
    Cyx = flat(_bc(MS, Rc, Rx))
    Syy = flat(_bc(Sy, Rc, Rx))
    Sigma = nf.concat([nf.concat([Sxx, nf.swapaxes(Cyx, 1, 2)], 2), nf.concat([Cyx, Syy], 2)], 1)
    # precision
    LM = nf.einsum("cyw,cwx->cyx", L, M)                        # Lambda M  [Rc,Dy,Dx]
    MLM = nf.einsum("cyx,cyz->cxz", M, LM)
    Lxx = nf.add(nf.expand_dims(Lx, [None]), nf.expand_dims(MLM, ["k", None]))
    Lyx = tile_x(nf.neg(LM), Rx)
    Lyy = tile_x(L, Rx)
    Lxx, Lyx, Lyy = flat(_bc(Lxx, Rc, Rx)), flat(_bc(Lyx, Rc, Rx)), flat(_bc(Lyy, Rc, Rx))
    Lam = nf.concat([nf.concat([Lxx, nf.swapaxes(Lyx, 1, 2)], 2), nf.concat([Lyx, Lyy], 2)], 1)
    ld = flat(_bc(nf.add(nf.expand_dims(lds, ["k", None]), nf.expand_dims(ldsx, [None])), Rc, Rx), 2)
    return dict(mu=mu, Sigma=Sigma, Lambda=Lam, ln_det_Sigma=ld)


def _bc(v, Rc, Rx):
    """make sure the two leading axes are materialised as (Rc, Rx) (replicate size-1 axes)."""
    reps = []
    for ax, n in zip(v.axes[:2], (Rc, Rx)):
        reps.append(D(n) if (not ax and not D(n).is_one()) else D(1))
    if all(r.is_one() for r in reps):
        return v
    return nf.tile(v, reps + [1] * (len(v.axes) - 2))


def joint_ob(prog, cls, ctx, regime, prop_prefix="joint"):
    owner, _ = prog.method(cls, "affine_joint_transformation")
    anchor = f"{C}::{owner}.affine_joint_transformation"

    def run():
        I, c, px, sizes = setup_cond(cls, ctx, regime)
        res = I.call_method(c, "affine_joint_transformation", [px])
        if not I.prog.is_subclass(res.cls, "GaussianPDF"):
            raise Refuted(f"returns {res.cls}", anchor)
        ref = joint_reference(c, px, sizes)
        d = []
        for fld in ("mu", "Sigma", "Lambda", "ln_det_Sigma"):
            dd = nf.diff(res.f[fld], ref[fld], what=f"joint {fld}")
            d += [(fld,) + tuple(q) for q in dd[:6]]
        # coherence of the constructed triple by block multiplication (rule 3 + rule 5)
        prod = nf.einsum("rab,rbc->rac", res.f["Sigma"], res.f["Lambda"], what="Sigma_xy*Lambda_xy")
        Dxy = res.f["Sigma"].shape[-1]
        Rc, Rx, Dy, Dx = sizes
        eye_blocks = nf.concat([nf.concat([nf.eye(Dx), nf.zeros([Dx, Dy])], 1), nf.concat([nf.zeros([Dy, Dx]), nf.eye(Dy)], 1)], 0)
        target = nf.add(nf.scale(prod, 0), nf.expand_dims(eye_blocks, [None]))
        dd = nf.diff(prod, target, what="Sigma_xy*Lambda_xy")
        d += [("Sigma_xy*Lambda_xy!=I",) + tuple(q) for q in dd[:4]]
        return d, dict(funcs=funcs_of(I), construct=anchor)
    return Ob(f"{prop_prefix}/{cls}/{ctx}/{regime}", run,
              "joint fields == [mu_x; M mu_x+b], [[Sx, Sx M'],[M Sx, S+M Sx M']], [[Lx+M'LM, -M'L],[-LM, L]], ln det = ln det Sx + ln det S; layout Rc (x) Rx; Sigma*Lambda = I",
              anchor, group=prop_prefix.split("/")[0])


def _logdomain(prog):
    from .common import logdomain_ob
    return logdomain_ob(prog, "logdomain")


def obligations(tier):
    prog = model.load()
    obs = []
    for cls in drivers.COND_CLASSES:
        for ctx in drivers.BATCH_CTX + drivers.ROUTE_CTX:
            for regime in (["Dx<=Dy"] if drivers.is_identity(cls) else drivers.REGIMES):
                obs.append(joint_ob(prog, cls, ctx, regime))
    obs.append(_logdomain(prog))
    return obs


FLOORS = {"group:joint": 18, "group:logdomain": 1}
LEVEL = "proof"
EXPLANATION = "affine_joint_transformation of every linear conditional class interpreted in the contexts (Rc,Rx) in {1/1,n/1,1/n} x {Dx>Dy, Dx<=Dy}."

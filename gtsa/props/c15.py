"""C15 - specialised representations (rank-one / linear / constant factors, diagonal, identity-mean, NN-controlled) agree with the
general full-matrix object carrying the same parameters."""
import ast
from .. import nf, build, model
from ..nf import Val, Undecided
from ..dim import D
from ..build import sym
from ..core import Ob, Refuted
from ..interp import Obj
from .common import funcs_of, make_measure, make_factor, obj_ln
from . import drivers
from .nncontrol import make_nn, Mb_reference

PROP = "C15"
F = "gaussian_toolbox/factor.py"
C = "gaussian_toolbox/conditional.py"


def obj_diffs(a, b, fields, what):
    d = []
    for f in fields:
        va, vb = a.f.get(f), b.f.get(f)
        if va is None and vb is None:
            continue
        if va is None or vb is None:
            d.append((f, "one side is None"))
            continue
        d += [(f,) + tuple(x) for x in nf.diff(va, vb, what=f"{what} {f}")[:4]]
    return d


def result_diffs(ra, rb, what):
    if isinstance(ra, Obj) and isinstance(rb, Obj):
        fields = [k for k in ("Lambda", "nu", "ln_beta", "mu", "Sigma", "ln_det_Sigma", "M", "b") if k in ra.f or k in rb.f]
        # covariance-type caches may be produced by different (proved-equivalent, C04) routes: compare when both are plain
        return obj_diffs(ra, rb, [f for f in fields if f not in ()], what)
    if isinstance(ra, Val) and isinstance(rb, Val):
        return nf.diff(ra, rb, what=what)
    if ra is None and rb is None:
        return []
    return [("type", type(ra).__name__, type(rb).__name__)]


# ---------------------------------------------------------------- (a) factor kinds
def factor_ob(fkind, mkind, op, uf, batch):
    meth = "_hadamard_with_measure" if op == "hadamard" else "_multiply_with_measure"

    def run():
        I = build.new_interp()
        Dd = sym("D")
        if op == "hadamard":
            R1 = sym("R") if batch in ("R/R", "R/1") else D(1)
            R2 = sym("R") if batch in ("R/R", "1/R") else D(1)
        else:
            R1, R2 = sym("R1"), sym("R2")
        u = make_measure(I, mkind, R1, Dd, "u")
        f = make_factor(I, fkind, R2, Dd, "f")
        g = I.construct("ConjugateFactor", dict(Lambda=f.f["Lambda"], nu=f.f["nu"], ln_beta=f.f["ln_beta"]))
        rs = I.call_method(u, op, [f], dict(update_full=uf))
        rg = I.call_method(u, op, [g], dict(update_full=uf))
        d = obj_diffs(rs, rg, ("Lambda", "nu", "ln_beta"), f"{fkind} vs general")
        if uf:
            # the covariance of the shortcut must be the inverse of the SAME precision the general route inverts
            from .common import inverse_pair_diffs
            dd = inverse_pair_diffs(rs.f["Sigma"], rg.f["Lambda"], "shortcut Sigma * general Lambda: ")
            d += [("Sigma",) + tuple(x) for x in dd[:3]]
            # log-determinants of the shortcut are those of the precision the general route inverts (same component order)
            from .common import invariant_diffs
            for fld, q in invariant_diffs(rs, fields=("ln_det_Sigma", "ln_det_Lambda"), what="shortcut "):
                d.append((fld, q))
        return d, dict(funcs=funcs_of(I))
    owner = fkind
    return Ob(f"factor/{fkind}/{mkind}/{op}/{batch}/full={int(uf)}", run,
              "product with a rank-one / linear / constant factor == product with the general ConjugateFactor carrying the same (Lambda, nu, ln_beta)",
              f"{F}::{owner}.{meth}", group="factor")


# ---------------------------------------------------------------- (c) identity-mean classes vs general with M = I, b = 0
ID_METHODS = ["affine_joint_transformation", "affine_marginal_transformation", "affine_conditional_transformation",
              "conditional_entropy", "mutual_information"]


def general_twin(I, c, Rc, Dy):
    """general conditional with the same noise and M := I (replicated), b := 0."""
    eye = nf.expand_dims(nf.eye(Dy), [None])
    M = eye if D(Rc).is_one() else nf.tile(eye, [Rc, 1, 1])
    return I.construct("ConditionalGaussianPDF", dict(M=M, b=nf.zeros([Rc, Dy]), Sigma=c.f["Sigma"], Lambda=c.f["Lambda"], ln_det_Sigma=c.f["ln_det_Sigma"]))


def identity_ob(prog, cls, meth, ctx):
    owner, _ = prog.method(cls, meth)
    anchor = f"{C}::{owner}.{meth}"

    def run():
        I, c, px, sizes = drivers.setup_cond(cls, ctx, "Dx<=Dy")
        Rc, Rx, Dy, Dx = sizes
        g = general_twin(I, c, Rc, Dy)
        rs = I.call_method(c, meth, [px])
        rg = I.call_method(g, meth, [px])
        return result_diffs(rs, rg, f"{cls}.{meth} vs general(M=I,b=0)"), dict(funcs=funcs_of(I), construct=anchor)
    return Ob(f"identity/{cls}/{meth}/{ctx}", run, "identity-mean override == general ConditionalGaussianPDF evaluated with M = I, b = 0", anchor, group="identity")


def identity_point_ob(prog, cls, meth, ctx):
    owner, _ = prog.method(cls, meth)
    anchor = f"{C}::{owner}.{meth}"

    def run():
        I = build.new_interp()
        N, Dy = sym("N"), sym("Dy")
        Rc = (N if ctx == "R=N" else sym("Rc")) if ctx != "R=1" else D(1)
        c = build.conditional(I, Rc, Dy, Dy, "c", cls=cls)
        g = general_twin(I, c, Rc, Dy)
        pts = build.points("pts", N, Dy)
        rs = I.call_method(c, meth, [pts])
        rg = I.call_method(g, meth, [pts])
        d = result_diffs(rs, rg, f"{cls}.{meth}")
        if meth == "set_y":
            # the general class is off by the known finding F1 only when Dx != Dy; here Dx == Dy
            pass
        return d, dict(funcs=funcs_of(I), construct=anchor)
    return Ob(f"identity/{cls}/{meth}/{ctx}", run, "identity-mean override == general class with M = I, b = 0", anchor, group="identity")


def identity_logint_ob(prog, cls, meth):
    owner, _ = prog.method(cls, meth)
    anchor = f"{C}::{owner}.{meth}"

    def run():
        I = build.new_interp()
        R, Dy = sym("R"), sym("Dy")
        c = build.conditional(I, D(1), Dy, Dy, "c", cls=cls)
        g = general_twin(I, c, D(1), Dy)
        if meth == "integrate_log_conditional":
            q = build.pdf(I, R, Dy + Dy, "q")
            rs, rg = I.call_method(c, meth, [q]), I.call_method(g, meth, [q])
        else:
            q = build.pdf(I, R, Dy, "q")
            y = build.points("y", R, Dy)
            rs, rg = I.call_method(c, meth, [q], dict(y=y)), I.call_method(g, meth, [q], dict(y=y))
        return result_diffs(rs, rg, f"{cls}.{meth}"), dict(funcs=funcs_of(I), construct=anchor)
    return Ob(f"identity/{cls}/{meth}/1xR", run, "identity-mean override == general class with M = I, b = 0", anchor, group="identity")


# ---------------------------------------------------------------- (d) NN control
NN_METHODS = ["affine_joint_transformation", "affine_marginal_transformation", "affine_conditional_transformation", "conditional_entropy"]


def nn_twin(I, c, u, Dy, Dx):
    M, b = Mb_reference(u, Dy, Dx)
    Ru = u.shape[0]
    t = (lambda v, k: v if D(Ru).is_one() else nf.tile(v, [Ru] + [1] * k))
    return I.construct("ConditionalGaussianPDF", dict(M=M, b=b, Sigma=t(c.f["Sigma"], 2), Lambda=t(c.f["Lambda"], 2), ln_det_Sigma=t(c.f["ln_det_Sigma"], 0)))


def nn_ob(prog, meth, ctx):
    anchor = f"{C}::NNControlGaussianConditional.{meth}"

    def run():
        I = build.new_interp(facts=drivers.regime_facts(sym("Dx"), sym("Dy"), "Dx<=Dy"))
        c, (Dy, Dx, Du) = make_nn(I, "c")
        Ru = sym("Ru") if ctx.split("/")[0] == "n" else D(1)
        Rx = sym("Rx") if ctx.split("/")[1] == "n" else D(1)
        u = nf.atom("u", [Ru, Du], owner="u")
        g = nn_twin(I, c, u, Dy, Dx)
        N = sym("N")
        if meth in NN_METHODS:
            px = build.pdf(I, Rx, Dx, "px")
            rs = I.call_method(c, meth, [px], dict(u=u))
            rg = I.call_method(g, meth, [px])
        elif meth in ("get_conditional_mu", "condition_on_x_u", "__call__"):
            x = build.points("x", N, Dx)
            rs = I.call_method(c, meth, [x, u])
            rg = I.call_method(g, {"condition_on_x_u": "condition_on_x", "__call__": "condition_on_x"}.get(meth, meth), [x])
        elif meth == "set_y":
            y = build.points("y", Ru if not D(Ru).is_one() else N, Dy)
            rs = I.call_method(c, meth, [y], dict(u=u))
            rg = I.call_method(g, meth, [y])
        elif meth == "integrate_log_conditional":
            q = build.pdf(I, sym("R"), Dy + Dx, "q")
            rs = I.call_method(c, meth, [q], dict(u=u))
            rg = I.call_method(g, meth, [q])
        elif meth == "integrate_log_conditional_y":
            q = build.pdf(I, sym("R"), Dx, "q")
            y = build.points("y", sym("R"), Dy)
            rs = I.call_method(c, meth, [q], dict(u=u, y=y))
            rg = I.call_method(g, meth, [q], dict(y=y))
        else:
            raise Undecided(meth)
        return result_diffs(rs, rg, f"NNControl.{meth}"), dict(funcs=funcs_of(I), construct=anchor)
    return Ob(f"nncontrol/{meth}/{ctx}", run, "NN-controlled conditional with the control fixed == general conditional with M(u), b(u) = documented split of the network output", anchor, group="nncontrol")


# ---------------------------------------------------------------- (b) diagonal inverse only on diagonal classes
def diag_lint_ob(prog):
    def run():
        bad = []
        n_sites = 0
        for mod, tree in prog.modules.items():
            for cls in [n for n in tree.body if isinstance(n, ast.ClassDef)]:
                for n in ast.walk(cls):
                    if isinstance(n, ast.Call) and ast.unparse(n.func).endswith("invert_diagonal"):
                        n_sites += 1
                        if "Diag" not in cls.name:
                            bad.append(f"{prog.relpath(mod)}:{n.lineno}: invert_diagonal used in {cls.name}, whose matrices are not documented diagonal")
        if n_sites < 1:
            raise Undecided(f"no invert_diagonal call site found (anchor vanished)")
        if bad:
            raise Refuted("; ".join(bad), bad[0].split(":")[0])
        return [], dict(sites=n_sites)
    return Ob("diag/inverse-sites", run, "the diagonal inverse shortcut is only applied in classes whose matrices are documented diagonal (its body == general inverse under the diagonal precondition: C02 linalg)", "gaussian_toolbox/utils/linalg.py::invert_diagonal", group="diag")


def obligations(tier):
    prog = model.load()
    obs = [diag_lint_ob(prog)]
    for fk in ("OneRankFactor", "LinearFactor", "ConstantFactor", "LowRankFactor"):
        for mk in ("cold", "warm", "pdf"):
            for uf in (False, True):
                obs.append(factor_ob(fk, mk, "multiply", uf, "R1xR2"))
                for b in ("R/R", "R/1", "1/R"):
                    obs.append(factor_ob(fk, mk, "hadamard", uf, b))
    for cls in ("ConditionalIdentityGaussianPDF", "ConditionalIdentityDiagGaussianPDF"):
        for meth in ID_METHODS:
            for ctx in drivers.BATCH_CTX:
                obs.append(identity_ob(prog, cls, meth, ctx))
        for meth in ("condition_on_x", "get_conditional_mu"):
            for ctx in ("R=1", "R=n"):
                obs.append(identity_point_ob(prog, cls, meth, ctx))
        for ctx in ("R=1", "R=N"):
            obs.append(identity_point_ob(prog, cls, "set_y", ctx))
        for meth in ("integrate_log_conditional", "integrate_log_conditional_y"):
            obs.append(identity_logint_ob(prog, cls, meth))
    for meth in NN_METHODS:
        for ctx in ("1/1", "n/1", "1/n"):
            obs.append(nn_ob(prog, meth, ctx))
    for meth in ("get_conditional_mu", "condition_on_x_u", "__call__", "set_y"):
        for ctx in ("1/1", "n/1"):
            obs.append(nn_ob(prog, meth, ctx))
    for meth in ("integrate_log_conditional", "integrate_log_conditional_y"):
        obs.append(nn_ob(prog, meth, "1/1"))
    return obs


FLOORS = {"group:factor": 96, "group:identity": 40, "group:nncontrol": 20, "group:diag": 1}
LEVEL = "proof"
EXPLANATION = ("Sibling agreement by specialisation: the general implementation is interpreted on the specialised parameters (M = I, b = 0; Lambda = g vv'; Lambda = 0, nu = 0; "
               "M(u), b(u) from the control network) and compared, field by field as normal forms, with the specialised override in the same contexts as the owning property.")

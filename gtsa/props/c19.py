"""C19 - sample(key, n) == mu + Chol(Sigma) z with z the key's standard normal stream of shape (n, R, D)."""
import ast
from .. import nf, build, model
from ..dim import D
from ..build import sym
from ..core import Ob, Refuted
from .common import funcs_of

PROP = "C19"
P = "gaussian_toolbox/pdf.py"


def sample_ob(cls, R_is_one):
    def run():
        I = build.new_interp()
        R = D(1) if R_is_one else sym("R")
        Dd, n = sym("D"), sym("n")
        diag = cls == "GaussianDiagPDF"
        p = build.pdf(I, R, Dd, "p", cls=cls, args="Sigma" if diag else "full", diag=diag)
        key = nf.atom("key", [2], kind="key")
        got = I.call_method(p, "sample", [key, n])
        calls = I.flags.get("prng_calls", [])
        if len(calls) != 1 or calls[0][0] != "key":
            raise Refuted(f"sample draws from {len(calls)} PRNG streams {calls}; expected exactly one jax.random.normal on the caller's key", f"{P}::GaussianPDF.sample")
        # the draw may have any shape that reshapes (row-major) to (n,R,D): a relabelling of i.i.d. entries keeps the law
        shp = calls[0][3]
        tot = D(1)
        for x in shp:
            tot = tot * x
        if tot != n * R * Dd:
            raise Refuted(f"sample draws {tot} standard normals (shape {calls[0][1]}); n*R*D = {n * R * Dd} independent ones are needed "
                          "(components / draws / coordinates would share random numbers)", f"{P}::GaussianPDF.sample")
        z = nf.atom(f"Normal(key;{','.join(calls[0][1])})", shp)
        if [str(x) for x in shp] != [str(n), str(R), str(Dd)]:
            z = nf.reshape(z, [n, R, Dd])
        Lc = nf.matfun("Chol", p.f["Sigma"], "cholesky")
        ref = nf.add(nf.expand_dims(p.f["mu"], [None]), nf.einsum("rbc,mrc->mrb", Lc, z))
        d = nf.diff(got, ref, what="sample")
        return d, dict(funcs=funcs_of(I))
    return Ob(f"sample/{cls}/R={'1' if R_is_one else 'R'}", run,
              "sample == mu[None] + sum_c Chol(Sigma)[r,b,c] z[m,r,c], z = normal(key,(n,R,D)); output axes (n,R,D); single PRNG source = caller's key",
              f"{P}::GaussianPDF.sample", group="sample")


def prng_lint_ob(prog):
    def run():
        owner, fn = prog.method("GaussianPDF", "sample")
        bad = []
        for n in ast.walk(fn):
            if isinstance(n, ast.Attribute):
                r = prog.resolve_static(prog.cls(owner).mod, n)
                if r and r[0] == "ext":
                    dotted = r[1]
                    if "random" in dotted and not dotted.startswith("jax.random"):
                        bad.append(dotted)
                    if dotted.startswith("jax.random.") and dotted.split(".")[-1] not in ("normal", "PRNGKey"):
                        bad.append(dotted)
        if bad:
            raise Refuted(f"sample uses random sources other than jax.random.normal(key): {sorted(set(bad))}", f"{P}::GaussianPDF.sample")
        overrides = [c for c in prog.overriders("sample") if c != "GaussianPDF"]
        if overrides:
            from ..nf import Undecided
            raise Undecided(f"sample overridden in {overrides}: not analysed")
        return []
    return Ob("prng/lint", run, "no global / NumPy random state in sample(); no override of sample() in subclasses", f"{P}::GaussianPDF.sample", group="prng")


def obligations(tier):
    prog = model.load()
    from .common import no_narrowing_ob
    obs = [prng_lint_ob(prog), no_narrowing_ob(prog, "dtype")]
    for cls in ("GaussianPDF", "GaussianDiagPDF"):
        for r1 in (False, True):
            obs.append(sample_ob(cls, r1))
    return obs


FLOORS = {"group:sample": 4, "group:prng": 1}
LEVEL = "proof"
EXPLANATION = "Structural clause of C19: the returned array is the affine image mu + L z of the key's standard-normal stream with L = cholesky(Sigma) contracted over its column index, paired per component; deterministic in the key (single PRNG head). Statistical moments are not decided."

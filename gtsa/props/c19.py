"""C19 - sample(key, n) == mu + Chol(Sigma) z with z the key's standard normal stream of shape (n, R, D)."""
import ast
from .. import nf, build, model
from ..dim import D
from ..build import sym
from ..core import Ob, Refuted
from .common import funcs_of

PROP = "C19"
P = "gaussian_toolbox/pdf.py"


def sample_ob(cls, R_is_one):
    def run():
        I = build.new_interp()
        R = D(1) if R_is_one else sym("R")
        Dd, n = sym("D"), sym("n")
        diag = cls == "GaussianDiagPDF"
        p = build.pdf(I, R, Dd, "p", cls=cls, args="Sigma" if diag else "full", diag=diag)
        key = nf.atom("key", [2], kind="key")
        got = I.call_method(p, "sample", [key, n])
        calls = I.flags.get("prng_calls", [])
        if len(calls) != 1 or calls[0][0] != "key":
            raise Refuted(f"sample draws from {len(calls)} PRNG streams {calls}; expected exactly one jax.random.normal on the caller's key", f"{P}::GaussianPDF.sample")
        # the draw may have any shape that reshapes (row-major) to (n,R,D): a relabelling of i.i.d. entries keeps the law
        shp = calls[0][3]
        tot = D(1)
        for x in shp:
            tot = tot * x
        if tot != n * R * Dd:
            raise Refuted(f"sample draws {tot} standard normals (shape {calls[0][1]}); n*R*D = {n * R * Dd} independent ones are needed "
                          "(components / draws / coordinates would share random numbers)", f"{P}::GaussianPDF.sample")
        z = nf.atom(f"Normal(key;{','.join(calls[0][1])})", shp)
        if [str(x) for x in shp] != [str(n), str(R), str(Dd)]:
            z = nf.reshape(z, [n, R, Dd])
        Lc = nf.matfun("Chol", p.f["Sigma"], "cholesky")
        ref = nf.add(nf.expand_dims(p.f["mu"], [None]), nf.einsum("rbc,mrc->mrb", Lc, z))
        d = nf.diff(got, ref, what="sample")
        return d, dict(funcs=funcs_of(I))
    return Ob(f"sample/{cls}/R={'1' if R_is_one else 'R'}", run,
              "sample == mu[None] + sum_c Chol(Sigma)[r,b,c] z[m,r,c], z = normal(key,(n,R,D)); output axes (n,R,D); single PRNG source = caller's key",
              f"{P}::GaussianPDF.sample", group="sample")


def prng_lint_ob(prog):
    def run():
        owner, fn = prog.method("GaussianPDF", "sample")
        bad = []
        for n in ast.walk(fn):
            if isinstance(n, ast.Attribute):
                r = prog.resolve_static(prog.cls(owner).mod, n)
                if r and r[0] == "ext":
                    dotted = r[1]
                    if "random" in dotted and not dotted.startswith("jax.random"):
                        bad.append(dotted)
                    if dotted.startswith("jax.random.") and dotted.split(".")[-1] not in ("normal", "PRNGKey"):
                        bad.append(dotted)
        if bad:
            raise Refuted(f"sample uses random sources other than jax.random.normal(key): {sorted(set(bad))}", f"{P}::GaussianPDF.sample")
        overrides = [c for c in prog.overriders("sample") if c != "GaussianPDF"]
        if overrides:
            from ..nf import Undecided
            raise Undecided(f"sample overridden in {overrides}: not analysed")
        return []
    return Ob("prng/lint", run, "no global / NumPy random state in sample(); no override of sample() in subclasses", f"{P}::GaussianPDF.sample", group="prng")


KR_SYNTH = '''
def bad_loop(key, n):
    return [jax.random.normal(key, (n,)) for _ in range(3)]
def bad_twice(key, n):
    a = jax.random.normal(key, (n,))
    b = jax.random.uniform(key, (n,))
    return a + b
def good(key, n):
    keys = jax.random.split(key, 3)
    a = [jax.random.normal(k, (n,)) for k in keys]
    key, sub = jax.random.split(key)
    b = jax.random.normal(sub, (n,))
    c = jax.vmap(lambda k: jax.random.normal(k, (n,)))(keys)
    d = [jax.random.normal(jax.random.fold_in(key, i), (n,)) for i in range(3)]
    for i in range(3):
        key, sub = jax.random.split(key)
        b = b + jax.random.normal(sub, (n,))
    return a, b, c, d
def good_early_return(key, n, flag):
    if flag:
        return jax.random.normal(key, (n, 1))
    return jax.random.normal(key, (n,))
'''
_NOT_DRAWS = ("split", "fold_in", "PRNGKey", "key", "key_data", "wrap_key_data", "clone", "key_impl")


def _bound_names(scope):
    """names (re)bound on every pass through a loop / comprehension / lambda / nested function"""
    out = set()
    if isinstance(scope, (ast.ListComp, ast.SetComp, ast.GeneratorExp, ast.DictComp)):
        for g in scope.generators:
            out |= {n.id for n in ast.walk(g.target) if isinstance(n, ast.Name)}
    elif isinstance(scope, (ast.For, ast.While)):
        for n in ast.walk(scope):
            if isinstance(n, ast.Name) and isinstance(n.ctx, ast.Store):
                out.add(n.id)
    elif isinstance(scope, (ast.Lambda, ast.FunctionDef)):
        a = scope.args
        out |= {x.arg for x in a.posonlyargs + a.args + a.kwonlyargs} | ({a.vararg.arg} if a.vararg else set()) | ({a.kwarg.arg} if a.kwarg else set())
    return out


def _key_reuse_sites(fn, is_draw, where):
    """(a) a draw lexically inside a loop / comprehension / lambda / nested def whose key expression uses no name bound there: every pass
    consumes the same key;  (b) two draws in one straight-line body on the same key name with no rebinding in between."""
    bad = []
    parents = {}
    for n in ast.walk(fn):
        for c in ast.iter_child_nodes(n):
            parents[c] = n
    draws = [n for n in ast.walk(fn) if isinstance(n, ast.Call) and is_draw(n.func) and (n.args or any(k.arg == "key" for k in n.keywords))]
    for c in draws:
        kexpr = c.args[0] if c.args else [k.value for k in c.keywords if k.arg == "key"][0]
        knames = {n.id for n in ast.walk(kexpr) if isinstance(n, ast.Name)}
        q = c
        while q in parents and parents[q] is not fn:
            q = parents[q]
            if isinstance(q, (ast.ListComp, ast.SetComp, ast.GeneratorExp, ast.DictComp, ast.For, ast.While, ast.Lambda, ast.FunctionDef)):
                if not (knames & _bound_names(q)):
                    bad.append(f"{where}:{c.lineno}: `{ast.unparse(c)[:70]}` is evaluated once per pass of the enclosing {type(q).__name__} with the same key "
                               f"`{ast.unparse(kexpr)}` - every pass returns the same random numbers")
                break
    # (b) straight-line reuse
    seen = {}
    for st in ast.walk(fn):
        pass
    order = sorted([n for n in ast.walk(fn) if isinstance(n, (ast.Call, ast.Name))], key=lambda n: (n.lineno, n.col_offset))
    for n in order:
        if isinstance(n, ast.Name) and isinstance(n.ctx, ast.Store):
            seen.pop(n.id, None)
        elif isinstance(n, ast.Call) and n in draws:
            kexpr = n.args[0] if n.args else [k.value for k in n.keywords if k.arg == "key"][0]
            if isinstance(kexpr, ast.Name):
                if kexpr.id in seen and not _exclusive(seen[kexpr.id], n, parents):
                    bad.append(f"{where}:{n.lineno}: key `{kexpr.id}` is consumed by a second draw `{ast.unparse(n)[:60]}` (first at line {seen[kexpr.id].lineno}) "
                               "without being split - the two draws are the same / correlated random numbers")
                seen.setdefault(kexpr.id, n)
    return bad


def _exclusive(a, b, parents):
    """a and b sit in different arms of one if / else (or conditional expression): at most one of them runs"""
    def chain(n):
        out = []
        while n in parents:
            p = parents[n]
            out.append((p, n))
            n = p
        return out
    ca = {id(p): ch for p, ch in chain(a)}
    inb = {id(ch) for _, ch in chain(b)} | {id(b)}
    # a sits in an arm of an `if` that ends in return / raise, b comes after that arm: at most one of them runs
    for p, ch in chain(a):
        if isinstance(p, ast.If):
            arm = p.body if any(ch is y for y in p.body) else p.orelse if any(ch is y for y in p.orelse) else None
            if arm and isinstance(arm[-1], (ast.Return, ast.Raise)) and not any(id(y) in inb for y in arm):
                return True
    for p, ch in chain(b):
        if id(p) in ca and isinstance(p, ast.If):
            arm = lambda x: "body" if any(x is y for y in p.body) else "orelse" if any(x is y for y in p.orelse) else "test"
            if arm(ch) != arm(ca[id(p)]) and "test" not in (arm(ch), arm(ca[id(p)])):
                return True
        if id(p) in ca and isinstance(p, ast.IfExp):
            if (ch is p.body and ca[id(p)] is p.orelse) or (ch is p.orelse and ca[id(p)] is p.body):
                return True
    return False


def key_reuse_ob(prog):
    def run():
        from ..nf import Undecided
        t = ast.parse(KR_SYNTH)
        syn = lambda f: isinstance(f, ast.Attribute) and ast.unparse(f).startswith("jax.random.") and f.attr not in _NOT_DRAWS
        if len(_key_reuse_sites(t.body[0], syn, "synthetic")) != 1 or len(_key_reuse_sites(t.body[1], syn, "synthetic")) != 1 or _key_reuse_sites(t.body[2], syn, "synthetic") or _key_reuse_sites(t.body[3], syn, "synthetic"):
            raise Undecided("key-reuse rule: synthetic positive / negative example mismatch")
        bad, nfun, ndraw = [], 0, 0
        for mod, tree in prog.modules.items():
            def is_draw(f, mod=mod):
                r = prog.resolve_static(mod, f)
                return bool(r and r[0] == "ext" and r[1].startswith("jax.random.") and r[1].rsplit(".", 1)[1] not in _NOT_DRAWS)
            for fn in ast.walk(tree):
                if isinstance(fn, ast.FunctionDef):
                    nfun += 1
                    ndraw += sum(1 for n in ast.walk(fn) if isinstance(n, ast.Call) and is_draw(n.func))
                    bad += _key_reuse_sites(fn, is_draw, f"{prog.relpath(mod)}::{prog.qualname_at(mod, fn.lineno)}")
        if ndraw < 1:
            raise Undecided("no jax.random draw found in the library (sample() vanished?)")
        bad = sorted(set(bad))
        if bad:
            raise Refuted(bad[0], bad[0].split(":")[0] + "::" + bad[0].split("::")[1].split(":")[0], bad)
        return [], dict(functions=nfun, draws=ndraw)
    return Ob("prng/key-reuse", run, "every PRNG key is consumed by at most one draw: no draw inside a loop / comprehension / mapped function on a key that "
              "does not change per pass, no second draw on an unsplit key (draws must be independent)", "gaussian_toolbox/*", group="prng")


def obligations(tier):
    prog = model.load()
    from .common import no_narrowing_ob
    obs = [prng_lint_ob(prog), key_reuse_ob(prog), no_narrowing_ob(prog, "dtype")]
    for cls in ("GaussianPDF", "GaussianDiagPDF"):
        for r1 in (False, True):
            obs.append(sample_ob(cls, r1))
    return obs


FLOORS = {"group:sample": 4, "group:prng": 2}
LEVEL = "proof"
EXPLANATION = "Structural clause of C19: the returned array is the affine image mu + L z of the key's standard-normal stream with L = cholesky(Sigma) contracted over its column index, paired per component; deterministic in the key (single PRNG head). Statistical moments are not decided."

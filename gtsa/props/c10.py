"""C10 - set_y returns the likelihood factor x -> N(y; Mx+b, Sigma) including the normaliser; a well-formed batch of N."""
from .. import nf, build, model
from ..dim import D, LOG2PI
from ..build import sym
from ..core import Ob, Refuted
from .common import funcs_of, obj_ln
from . import drivers
from .drivers import cond_params

PROP = "C10"
C = "gaussian_toolbox/conditional.py"


def likelihood_reference(c, x, y, Rc, Dy, Dx, paired):
    """ln N(y_n; M x_m + b, Sigma) -> [N, Nx]   (paired: component n of the conditional goes with observation n)."""
    M, b, S, L, lds = cond_params(c, Rc, Dy, Dx)
    mean = nf.einsum("cyx,mx->cmy", M, x)                    # [Rc, Nx, Dy]
    if b is not None:
        mean = nf.add(mean, nf.expand_dims(b, ["k", None]))
    if paired:
        dy = nf.add(nf.expand_dims(y, ["k", None]), mean, -1)        # [N(=Rc), Nx, Dy]
        q = nf.einsum("nmy,nyw,nmw->nm", dy, L, dy)
        cst = nf.add(nf.expand_dims(lds, ["k", None]), nf.const(Dy * LOG2PI))
    else:
        mean0 = nf.Val(mean.axes[1:], mean.terms)                      # Rc = 1
        dy = nf.add(nf.expand_dims(y, ["k", None]), nf.expand_dims(mean0, [None]), -1)   # [N, Nx, Dy]
        L0 = nf.Val(L.axes[1:], L.terms)
        q = nf.einsum("nmy,yw,nmw->nm", dy, L0, dy)
        cst = nf.add(nf.Val([], lds.terms), nf.const(Dy * LOG2PI))
    return nf.scale(nf.add(q, cst), D(-1) / 2)


def sety_ob(prog, cls, ctx):
    owner, _ = prog.method(cls, "set_y")
    anchor = f"{C}::{owner}.set_y"

    def run():
        N, Nx, Dy = sym("N"), sym("Nx"), sym("Dy")
        Dx = Dy if drivers.is_identity(cls) else sym("Dx")
        Rc = N if ctx == "R=N" else D(1)
        I = build.new_interp()
        c = build.conditional(I, Rc, Dy, Dx, "c", cls=cls)
        y = build.points("y", N, Dy)
        x = build.points("x", Nx, Dx)
        fac = I.call_method(c, "set_y", [y])
        if not I.prog.is_subclass(fac.cls, "ConjugateFactor"):
            raise Refuted(f"set_y returns {fac.cls}", anchor)
        got = obj_ln(fac, x)
        ref = likelihood_reference(c, x, y, Rc, Dy, Dx, paired=(ctx == "R=N"))
        d = [("value",) + tuple(q) for q in nf.diff(got, ref, what="set_y(y)(x) vs N(y; Mx+b, Sigma)")[:8]]
        return d, dict(funcs=funcs_of(I), construct=anchor)
    return Ob(f"value/{cls}/{ctx}", run, "set_y(y).evaluate_ln(x) == ln N(y; Mx+b, Sigma) with dim(Sigma) = Dy in the normaliser", anchor, group="value")


def wellformed_ob(prog, cls, ctx):
    owner, _ = prog.method(cls, "set_y")
    anchor = f"{C}::{owner}.set_y"

    def run():
        N, Dy = sym("N"), sym("Dy")
        Dx = Dy if drivers.is_identity(cls) else sym("Dx")
        Rc = N if ctx == "R=N" else D(1)
        I = build.new_interp()
        c = build.conditional(I, Rc, Dy, Dx, "c", cls=cls)
        y = build.points("y", N, Dy)
        fac = I.call_method(c, "set_y", [y])
        bad = []
        for fld, rank in (("Lambda", 3), ("nu", 2), ("ln_beta", 1)):
            v = fac.f[fld]
            if len(v.axes) != rank:
                bad.append(f"{fld} has rank {len(v.axes)}")
            elif v.shape[0] != N:
                bad.append(f"{fld} has leading size {v.shape[0]} instead of N (one component per observation)")
        if bad:
            raise Refuted("returned factor is not a batch of N components: " + "; ".join(bad), anchor)
        # the returned batch can be sliced like any other factor: every field is taken with the same index array
        Rn = sym("Rn")
        idx = build.indices("idx", Rn)
        sl = I.call_method(fac, "slice", [idx])
        for fld in ("Lambda", "nu", "ln_beta"):
            dd = nf.diff(sl.f[fld], nf.gather_axis(fac.f[fld], 0, "idx", Rn), what=f"set_y(y).slice(idx).{fld}")
            if dd:
                raise Refuted(f"set_y(y).slice(idx): field {fld} is not the observation-wise selection: {dd[:2]}", f"gaussian_toolbox/factor.py::ConjugateFactor.slice")
        # product() over the batch is the joint likelihood of all observations
        prod = I.call_method(fac, "product", [])
        x = build.points("x", sym("Nx"), Dx)
        ref = nf.sum_axis(likelihood_reference(c, x, y, Rc, Dy, Dx, paired=(ctx == "R=N")), 0, keepdims=True)
        d = [("product",) + tuple(q) for q in nf.diff(obj_ln(prod, x), ref, what="set_y(y).product()")[:6]]
        # only the normaliser clause belongs to value/..: ignore pure ln 2pi coefficient differences here
        d = [q for q in d if not (q[1] == "coef" and "LOG2PI" in q[2] + q[3])]
        return d, dict(funcs=funcs_of(I), construct=anchor)
    return Ob(f"wellformed/{cls}/{ctx}", run, "Lambda, nu, ln_beta of set_y(y) all have one component per observation; product() is the joint likelihood", anchor, group="wellformed")


def obligations(tier):
    prog = model.load()
    obs = []
    for cls in drivers.COND_CLASSES:
        for ctx in ("R=1", "R=N"):
            obs.append(sety_ob(prog, cls, ctx))
            obs.append(wellformed_ob(prog, cls, ctx))
    from .common import hidden_state_ob
    obs.append(hidden_state_ob(prog, "purity"))      # the observation array handed to set_y is an operand: not written, no state kept between calls
    from .common import endpoint_contiguity_ob
    obs.append(endpoint_contiguity_ob(model.load(), "indexlist"))
    return obs


FLOORS = {"group:value": 8, "group:wellformed": 8, "group:purity": 1, "group:indexlist": 1}
LEVEL = "proof"
EXPLANATION = "set_y of every linear conditional class, contexts R=1 (broadcast over N observations) and R=N (paired), against the Normal log-density in y with dim(Sigma)=Dy."

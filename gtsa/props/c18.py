"""C18 (partial) - JAX transformations and round trips: pytree protocol closure, API resolution against the installed jax,
constructor idempotence, static vs dynamic children, to_dict/from_dict agreement, trace-safe control flow, stop_gradient."""
import ast
from .. import nf, build, model, extres
from ..nf import Undecided
from ..core import Ob, Refuted
from ..interp import Interp, Env, Closure
from . import apis

PROP = "C18"
DC = "gaussian_toolbox/utils/dataclass.py"


# ---------------------------------------------------------------- 1. API resolution
def ext_uses(prog):
    """(module, lineno, dotted) for every attribute chain / from-import that names something in jax."""
    uses = []
    explicit = set()
    for mod, tree in prog.modules.items():
        for n in ast.walk(tree):
            if isinstance(n, ast.Import):
                for a in n.names:
                    if a.name.split(".")[0] == "jax":
                        explicit.add(a.name)
            elif isinstance(n, ast.ImportFrom) and n.level == 0 and n.module and n.module.split(".")[0] == "jax":
                explicit.add(n.module)
                for a in n.names:
                    uses.append((mod, n.lineno, n.module + "." + a.name, "import"))
        # maximal attribute chains
        parents = {}
        for n in ast.walk(tree):
            for ch in ast.iter_child_nodes(n):
                parents[ch] = n
        for n in ast.walk(tree):
            if isinstance(n, ast.Attribute) and not isinstance(parents.get(n), ast.Attribute):
                # longest prefix that is a pure Name.attr.attr chain
                d = prog._dotted(n)
                if d is None:
                    continue
                head = d.split(".")[0]
                a = prog.aliases.get(mod, {}).get(head)
                if a and a[0] == "ext" and a[1].split(".")[0] == "jax":
                    # a local variable may shadow the alias: only count when the name is not assigned in the enclosing function
                    uses.append((mod, n.lineno, a[1] + d[len(head):], "attr"))
    return uses, explicit


def api_resolution_ob(prog):
    def run():
        uses, explicit = ext_uses(prog)
        if len(uses) < 150:
            raise Undecided(f"only {len(uses)} jax name uses found (floor 150)")
        bad = []
        undecided = 0
        seen = {}
        for mod, line, dotted, kind in uses:
            if dotted not in seen:
                # array-method suffixes (x.at, .T, .shape ...) are not module attributes: resolve the longest module-level prefix
                seen[dotted] = _resolve_prefix(dotted, explicit)
            ok, why = seen[dotted]
            if ok is False and kind == "import" and "exists but" in why:
                ok = True          # `from package import submodule` imports the sub-module
            if ok is False:
                bad.append(f"{prog.relpath(mod)}:{line} in {prog.qualname_at(mod, line)}: `{dotted}` does not resolve in the installed jax: {why}")
            elif ok is None:
                undecided += 1
        if bad:
            raise Refuted("; ".join(bad[:3]), bad[0].split(":")[0] + "::" + bad[0].split(" in ")[1].split(":")[0], bad)
        return [], dict(names=len(seen), uses=len(uses), undecided=undecided)
    return Ob("api/resolution", run, "every jax.* name used by the library resolves in the installed jax package (sources parsed, nothing imported)", "gaussian_toolbox/**", group="api")


def _resolve_prefix(dotted, explicit):
    parts = dotted.split(".")
    ok, why = extres.resolve(dotted, explicit)
    if ok is not False:
        return ok, why
    # retry dropping trailing attributes that belong to objects (functions / arrays), but never below 3 components
    for k in range(len(parts) - 1, 2, -1):
        ok2, why2 = extres.resolve(".".join(parts[:k]), explicit)
        if ok2 is True and "module" not in why2:
            return True, why2
    return ok, why


# ---------------------------------------------------------------- 2-4. pytree protocol
def registration(prog):
    """analyse register_dataclass_type_with_jax_tree_util: returns dict(flatten_source, unflatten_route)."""
    fn = prog.functions.get(("utils.dataclass", "register_dataclass_type_with_jax_tree_util"))
    if fn is None:
        raise model.AnchorError("utils/dataclass.py::register_dataclass_type_with_jax_tree_util not found")
    src = ast.unparse(fn)
    info = dict(all_dict="__dict__" in src)
    defs = {}
    for n in ast.walk(fn):
        if isinstance(n, ast.Assign) and isinstance(n.targets[0], ast.Name) and isinstance(n.value, ast.Lambda):
            defs[n.targets[0].id] = n.value
        if isinstance(n, ast.FunctionDef) and n is not fn:
            defs[n.name] = n
    un = defs.get("unflatten")
    if un is None:
        raise Undecided("unflatten function not found in registration")
    usrc = ast.unparse(un)
    if "data_class(**" in usrc or "data_class(" in usrc and "__new__" not in usrc:
        info["route"] = "constructor"
    elif "__new__" in usrc and "__dict__" in usrc:
        info["route"] = "dict"
    else:
        raise Undecided("unrecognised unflatten route")
    fl = defs.get("flatten")
    fsrc = ast.unparse(fl) if fl is not None else ""
    info["static_split"] = ("_is_static" in fsrc or "aux" in fsrc or "static" in fsrc)
    return info


def self_attrs(prog, cls):
    """names assigned as self.X anywhere in the class or its bases (instance __dict__ keys beyond dataclass fields)."""
    out = {}
    for k in prog.mro(cls):
        for m, fn in prog.classes[k].methods.items():
            for n in ast.walk(fn):
                if isinstance(n, (ast.Assign, ast.AugAssign, ast.AnnAssign)):
                    tgts = n.targets if isinstance(n, ast.Assign) else [n.target]
                    for t in tgts:
                        for x in ([t] if not isinstance(t, ast.Tuple) else t.elts):
                            if isinstance(x, ast.Attribute) and isinstance(x.value, ast.Name) and x.value.id == "self":
                                out.setdefault(x.attr, f"{k}.{m}")
    return out


def dataclasses_of(prog):
    return sorted(c for c, ci in prog.classes.items() if ci.is_dataclass)


def closure_ob(prog, cls):
    ci = prog.cls(cls)
    anchor = f"{prog.relpath(ci.mod)}::{cls}"

    def run():
        reg = registration(prog)
        if reg["route"] == "dict":
            return [], dict(route="dict")
        tab = prog.field_table(cls)
        extra = {a: w for a, w in self_attrs(prog, cls).items() if a not in tab}
        if extra:
            raise Refuted(f"tree_unflatten rebuilds {cls} through its constructor with every key of __dict__, but "
                          + ", ".join(f"'{a}' (set in {w})" for a, w in sorted(extra.items()))
                          + " are not dataclass fields: the mappable constructor raises 'unexpected kwargs'", f"{DC}::register_dataclass_type_with_jax_tree_util")
        return [], dict(route="constructor")
    return Ob(f"pytree/closure/{cls}", run, "keys emitted by tree_flatten are accepted by tree_unflatten", anchor, group="pytree")


def idempotence_ob(prog, cls):
    ci = prog.cls(cls)
    anchor = f"{prog.relpath(ci.mod)}::{cls}.__post_init__"

    def run():
        reg = registration(prog)
        if reg["route"] == "dict":
            return [], {}
        r = prog.find_method(cls, "__post_init__")
        if r is None:
            return [], {}
        owner, fn = r
        tab = prog.field_table(cls)
        bad = []
        for n in ast.walk(fn):
            if isinstance(n, ast.Assign):
                tgts = []
                for t in n.targets:
                    tgts += ([t] if not isinstance(t, ast.Tuple) else t.elts)
                for t in tgts:
                    if isinstance(t, ast.Attribute) and isinstance(t.value, ast.Name) and t.value.id == "self" and tab.get(t.attr, {}).get("init"):
                        reads = [x for x in ast.walk(n.value) if isinstance(x, ast.Attribute) and isinstance(x.value, ast.Name) and x.value.id == "self" and x.attr == t.attr]
                        identity = isinstance(n.value, ast.Attribute) and ast.unparse(n.value) == f"self.{t.attr}"
                        if reads and not identity:
                            bad.append(f"{owner}.__post_init__ line `{ast.unparse(n)}` re-derives init field {t.attr} from itself: constructing the object again from its own fields (tree_unflatten) changes it")
        if bad:
            raise Refuted("; ".join(bad), anchor)
        return [], {}
    return Ob(f"pytree/idempotent/{cls}", run, "constructor route: __post_init__ assigns an init field only with a value independent of it", anchor, group="pytree")


STATIC_ANN = ("int", "callable", "str", "bool", "Callable")


def static_children_ob(prog, cls):
    ci = prog.cls(cls)
    anchor = f"{prog.relpath(ci.mod)}::{cls}"

    def run():
        reg = registration(prog)
        if reg["static_split"]:
            return [], {}
        tab = prog.field_table(cls)
        assigned = self_attrs(prog, cls)
        bad = [f"{n}: {e['ann']}" for n, e in tab.items() if e["ann"] in STATIC_ANN and (e["init"] or e["default"] not in ("UNSET", "REQUIRED") or n in assigned)]
        if bad:
            raise Refuted(f"{cls} has non-array fields ({', '.join(bad)}) that tree_flatten emits as pytree children: passing the object through jit/vmap turns them into tracers (shape positions) or rejects them (callables)", f"{DC}::register_dataclass_type_with_jax_tree_util")
        return [], {}
    return Ob(f"pytree/static/{cls}", run, "fields annotated int / callable are static aux data, not pytree children", anchor, group="pytree")


# ---------------------------------------------------------------- 5. to_dict / from_dict
def todict_ob(prog, cls):
    r = prog.find_method(cls, "to_dict")
    owner, fn = r
    anchor = f"{prog.relpath(prog.cls(owner).mod)}::{owner}.to_dict"

    def run():
        tab = prog.field_table(cls)
        d = None
        for n in ast.walk(fn):
            if isinstance(n, ast.Dict):
                d = n
        if d is None:
            raise Undecided("to_dict does not build a dict literal")
        keys = {}
        for k, v in zip(d.keys, d.values):
            if not isinstance(k, ast.Constant):
                raise Undecided("non-literal key")
            keys[k.value] = ast.unparse(v)
        bad = []
        for k, v in keys.items():
            if k not in tab:
                bad.append(f"key '{k}' is not a field of {cls} (from_dict -> cls(**dict) raises unexpected kwargs)")
            elif not tab[k]["init"]:
                bad.append(f"key '{k}' is a derived (init=False) field of {cls}: the constructor drops it, so whatever it stands for is not reconstructed")
            else:
                want = {f"self.{k}"} | ({"self.D"} if k == "num_dim" else set())
                if v not in want:
                    bad.append(f"key '{k}' holds {v}, not self.{k}")
        from .common import CACHE_FIELDS
        for name, e in tab.items():
            if e["init"] and e["default"] == "REQUIRED" and name not in keys:
                bad.append(f"required init field '{name}' is missing from to_dict")
            elif e["init"] and name not in keys and not (name in CACHE_FIELDS and e["default"] == "NONE"):
                # a free parameter with a default (OneRankFactor.g) must be stored too: from_dict would silently fall back to the default;
                # only caches that are recomputed on demand from the stored parameters may be left out
                bad.append(f"init field '{name}' (default {e['default']}) is missing from to_dict: from_dict rebuilds the object with the default, not with the object's value")
        if bad:
            raise Refuted("; ".join(bad), anchor)
        return [], dict(keys=len(keys))
    return Ob(f"todict/{cls}", run, "to_dict keys are init fields of the class holding self.<key>; every required field is present (from_dict(to_dict()) reconstructs)", anchor, group="todict")


def aux_equality_ob(prog):
    """jit caches a trace per (treedef, static aux data) compared with == / hash: the static fields (callables, ints) of the library's objects must
    compare as the values themselves.  No class of the library defines __eq__ / __ne__ / __hash__ today (dataclass-generated equality aside); a
    user-defined one on the aux data or on a static field - e.g. callables compared by __qualname__ - makes jit silently reuse the trace that was
    compiled for ANOTHER static value (seeded change L3-d3)."""
    def run():
        synth = ast.parse("class K(tuple):\n    def __eq__(s, o):\n        return True\n    def __hash__(s):\n        return 0\nclass G:\n    def f(s):\n        return 1\n")
        def sites(tree, rel):
            out = []
            for c in ast.walk(tree):
                if isinstance(c, ast.ClassDef):
                    for f in c.body:
                        if isinstance(f, ast.FunctionDef) and f.name in ("__eq__", "__ne__", "__hash__"):
                            out.append(f"{rel}:{f.lineno} class {c.name} defines {f.name}")
                        if isinstance(f, ast.Assign) and any(isinstance(t, ast.Name) and t.id in ("__eq__", "__hash__") for t in f.targets):
                            out.append(f"{rel}:{f.lineno} class {c.name} assigns {ast.unparse(f.targets[0])}")
            return out
        if len(sites(synth, "synthetic")) != 2:
            raise Undecided("aux-equality rule: synthetic example mismatch")
        bad, n = [], 0
        for mod, tree in prog.modules.items():
            n += sum(1 for c in ast.walk(tree) if isinstance(c, ast.ClassDef))
            bad += sites(tree, prog.relpath(mod))
        if n < 20:
            raise Undecided(f"only {n} classes scanned")
        if bad:
            raise Refuted("; ".join(bad[:3]) + ": user-defined equality / hash on library objects or on pytree aux data changes what jit considers the same "
                          "static configuration", bad[0].split(":")[0] + "::" + bad[0].split(" class ")[1].split(" ")[0], bad)
        return [], dict(classes=n)
    return Ob("pytree/aux-equality", run, "no class of the library defines __eq__ / __ne__ / __hash__: pytree aux data and static fields compare as the values themselves "
              "(jit cache keys)", "gaussian_toolbox/utils/dataclass.py::register_dataclass_type_with_jax_tree_util", group="pytree")


# ---------------------------------------------------------------- 6. trace safety
SYNTH = '''
from jax import numpy as jnp
def bad_branch(x):
    if jnp.sum(x) > 0:
        return x
    return -x
'''


def trace_synthetic_ob():
    def run():
        import warnings
        prog = model.load()
        I = build.new_interp()
        tree = ast.parse(SYNTH)
        prog.modules["__synthetic__"] = tree
        prog.aliases["__synthetic__"] = {"jnp": ("ext", "jax.numpy")}
        fn = [n for n in tree.body if isinstance(n, ast.FunctionDef)][0]
        prog.functions[("__synthetic__", "bad_branch")] = fn
        try:
            from ..interp import FuncRef
            try:
                I.call(FuncRef("__synthetic__", fn), [nf.atom("x", [build.sym("N")])], {})
            except Undecided:
                pass
        finally:
            del prog.modules["__synthetic__"], prog.aliases["__synthetic__"], prog.functions[("__synthetic__", "bad_branch")]
        if not any(f[0] == "array-in-control-flow" for f in I.findings):
            raise Undecided("positive example for the trace-safety rule did not fire")
        return [], dict(fired=1)
    return Ob("trace/synthetic-positive", run, "the trace-safety rule fires on a synthetic `if jnp.sum(x) > 0`", "gtsa synthetic", group="trace")


def trace_ob(name, cls, ctx, drv):
    def run():
        from ..interp import Interp
        found = []
        orig = build.new_interp
        made = []

        def patched(*a, **k):
            I = orig(*a, **k)
            made.append(I)
            return I
        build.new_interp = patched
        try:
            try:
                drv()
            except Undecided:
                pass
            except Exception:
                pass
        finally:
            build.new_interp = orig
        for I in made:
            found += I.findings
        if found:
            k, site, src = found[0]
            raise Refuted(f"array value reaches Python control flow / scalar conversion: `{src}` at {site[0]}:{site[2]} in {site[1]} (breaks under jit/vmap)", f"{site[0]}::{site[1]}", found)
        return [], {}
    return Ob(f"trace/{name}/{cls}/{ctx}", run, "no array-valued expression is used as a Python truth value / int() / shape while interpreting the operation", f"{cls}.{name}", group="trace")


# ---------------------------------------------------------------- 7. stop_gradient on while_loop results
def while_loop_ob(prog):
    def run():
        producers = set()
        for (mod, name), fn in list(prog.functions.items()):
            pass
        for c, ci in prog.classes.items():
            for m, fn in ci.methods.items():
                for n in ast.walk(fn):
                    if isinstance(n, ast.Call) and ast.unparse(n.func).endswith("while_loop"):
                        producers.add(m)
        if not producers:
            raise Undecided("no lax.while_loop call found (anchor vanished)")
        bad = []
        sites = 0
        for mod, tree in prog.modules.items():
            parents = {}
            for n in ast.walk(tree):
                for ch in ast.iter_child_nodes(n):
                    parents[ch] = n
            for n in ast.walk(tree):
                if isinstance(n, ast.Call) and isinstance(n.func, ast.Attribute) and n.func.attr in producers:
                    sites += 1
                    p = parents.get(n)
                    wrapped = isinstance(p, ast.Call) and ast.unparse(p.func).endswith("stop_gradient")
                    if not wrapped:
                        bad.append(f"{prog.relpath(mod)}:{n.lineno} in {prog.qualname_at(mod, n.lineno)}: result of {n.func.attr} (computed by lax.while_loop) is used without lax.stop_gradient; reverse-mode differentiation through while_loop raises")
        if bad:
            raise Refuted("; ".join(bad[:2]), bad[0].split(":")[0])
        return [], dict(producers=sorted(producers), call_sites=sites)
    return Ob("grad/while_loop", run, "every value produced by lax.while_loop passes through lax.stop_gradient at its call site", "gaussian_toolbox/approximate_conditional.py::HeteroscedasticConditional._get_omega_star", group="grad")


# ---------------------------------------------------------------- 7b. gradients are neither blocked nor routed through degenerate decompositions
GR_SYNTH = '''
def bad_block(self):
    return lax.stop_gradient(-0.5 * self.w0 ** 2)
def bad_eigh(A):
    w, V = jnp.linalg.eigh(A)
    return V
def good(self, p_x, W):
    return lax.stop_gradient(self._get_omega_star(p_x=p_x, W_i=W))
'''
_SPECTRAL = ("eigh", "eig", "eigvalsh", "eigvals", "svd", "norm")      # norm: d/dx |x| is NaN at x = 0 (e.g. equal means)


def _gradient_flow_violations(tree, relpath, qual, variational):
    """(a) lax.stop_gradient may only wrap the variational parameters of the lower bounds (values produced by the fixed-point /
    closed-form optimisers named in `variational`): anywhere else it silently removes a term from the gradient of a parameter-dependent
    value; (b) eigendecompositions / SVD have NaN derivatives at repeated eigenvalues (isotropic covariances) - the library inverts
    through Cholesky factors."""
    out, sites = [], 0
    for n in ast.walk(tree):
        if not isinstance(n, ast.Call):
            continue
        fname = ast.unparse(n.func)
        if fname.endswith("stop_gradient") and n.args:
            sites += 1
            inner = [m for m in ast.walk(n.args[0]) if isinstance(m, ast.Call) and isinstance(m.func, ast.Attribute) and m.func.attr in variational]
            if not inner:
                out.append(f"{relpath}:{n.lineno} in {qual(n.lineno)}: `{ast.unparse(n)[:100]}` blocks the gradient of a value that is not a variational "
                           f"parameter ({', '.join(sorted(variational))}): derivatives with respect to the parameters it depends on lose that term")
        if isinstance(n.func, ast.Attribute) and n.func.attr in _SPECTRAL and "linalg" in fname:
            out.append(f"{relpath}:{n.lineno} in {qual(n.lineno)}: `{fname}` has NaN reverse-mode derivatives at repeated eigenvalues / singular values "
                       "(e.g. isotropic covariances) resp. at the zero vector (norm); matrix inverses and log-determinants go through Cholesky factors, "
                       "quadratic forms are written as contractions")
    return out, sites


def gradient_flow_ob(prog):
    def run():
        variational = {"_get_omega_star", "_get_omega_dagger"}
        missing = [v for v in variational if not any(v in ci.methods for ci in prog.classes.values())]
        if missing:
            raise Undecided(f"variational-parameter producers {missing} not found (anchor vanished)")
        t = ast.parse(GR_SYNTH)
        v1, _ = _gradient_flow_violations(t.body[0], "synthetic", lambda l: "bad", variational)
        v2, _ = _gradient_flow_violations(t.body[1], "synthetic", lambda l: "bad", variational)
        v3, _ = _gradient_flow_violations(t.body[2], "synthetic", lambda l: "good", variational)
        if len(v1) != 1 or len(v2) != 1 or v3:
            raise Undecided("gradient-flow rule: synthetic positive / negative example mismatch")
        bad, sites = [], 0
        for mod, tree in prog.modules.items():
            b, k = _gradient_flow_violations(tree, prog.relpath(mod), lambda l, mod=mod: prog.qualname_at(mod, l), variational)
            bad += b
            sites += k
        if sites < 2:
            raise Undecided(f"only {sites} stop_gradient sites found (floor 2)")
        if bad:
            raise Refuted("; ".join(bad[:2]), bad[0].split(":")[0] + "::" + bad[0].split(" in ")[1].split(":")[0], bad)
        return [], dict(stop_gradient_sites=sites)
    return Ob("grad/flow", run, "lax.stop_gradient wraps only variational parameters; no eigendecomposition / SVD (NaN derivatives at repeated eigenvalues)",
              "gaussian_toolbox/approximate_conditional.py::HeteroscedasticConditional.get_lb_log_det", group="grad")


# ---------------------------------------------------------------- 8. NaN-safe `where` guards (the repository's own double-where idiom)
def _where_guard_violations(tree, relpath, qual):
    """jnp.where(jnp.isfinite(X), A, B): if X enters A unsanitised (not as where(isfinite(X), X, const)) and is multiplied /
    divided / passed through a function together with an object parameter (self.*), the VJP of the untaken branch is
    0 * inf = NaN with respect to that parameter whenever the guard is False (reverse-mode gradient NaN)."""
    out = []
    n_sites = 0
    for n in ast.walk(tree):
        if not (isinstance(n, ast.Call) and ast.unparse(n.func).endswith("where") and len(n.args) == 3):
            continue
        c = n.args[0]
        if not (isinstance(c, ast.Call) and ast.unparse(c.func).endswith("isfinite") and c.args):
            continue
        n_sites += 1
        X = ast.unparse(c.args[0])
        A = n.args[1]
        sanitised = set()
        for m in ast.walk(A):
            if isinstance(m, ast.Call) and ast.unparse(m.func).endswith("where") and len(m.args) == 3 and ast.unparse(m.args[0]) == ast.unparse(c) and ast.unparse(m.args[1]) == X:
                for q in ast.walk(m):
                    sanitised.add(id(q))

        def raw_x(t):
            return any(ast.unparse(q) == X and id(q) not in sanitised for q in ast.walk(t) if isinstance(q, (ast.Attribute, ast.Name, ast.Subscript)))

        def has_param(t):
            return any(isinstance(q, ast.Attribute) and ast.unparse(q).startswith("self.") and ast.unparse(q) != X and not X.startswith(ast.unparse(q))
                       for q in ast.walk(t) if id(q) not in sanitised)
        for m in ast.walk(A):
            if id(m) in sanitised:
                continue
            if isinstance(m, ast.BinOp) and isinstance(m.op, (ast.Mult, ast.Div, ast.Pow, ast.MatMult)):
                if (raw_x(m.left) and has_param(m.right)) or (raw_x(m.right) and has_param(m.left)):
                    out.append(f"{relpath}:{n.lineno} in {qual(n.lineno)}: `{X}` may be infinite where the guard `{ast.unparse(c)}` is False, but enters `{ast.unparse(m)[:120]}` unsanitised together with an object parameter: the reverse-mode gradient w.r.t. that parameter is NaN (0 * inf); use the double-where idiom `where(isfinite(X), X, 0)` inside the branch")
                    break
    return out, n_sites


WG_SYNTH = '''
def bad(self):
    return jnp.where(jnp.isfinite(self.lower), (self.lower - self.mu) * jnp.sqrt(self.Lambda), self.lower)
def good(self):
    return jnp.where(jnp.isfinite(self.lower), (jnp.where(jnp.isfinite(self.lower), self.lower, 0) - self.mu) * jnp.sqrt(self.Lambda), self.lower)
'''


def where_guard_ob(prog):
    def run():
        t = ast.parse(WG_SYNTH)
        v, _ = _where_guard_violations(t.body[0], "synthetic", lambda l: "bad")
        w, _ = _where_guard_violations(t.body[1], "synthetic", lambda l: "good")
        if len(v) != 1 or w:
            raise Undecided("where-guard rule: synthetic positive / negative example mismatch")
        bad = []
        sites = 0
        for mod, tree in prog.modules.items():
            b, k = _where_guard_violations(tree, prog.relpath(mod), lambda l, mod=mod: prog.qualname_at(mod, l))
            bad += b
            sites += k
        if sites < 3:
            raise Undecided(f"only {sites} isfinite-guarded where sites found (floor 3)")
        if bad:
            raise Refuted("; ".join(bad[:2]), bad[0].split(":")[0] + "::" + bad[0].split(" in ")[1].split(":")[0], bad)
        return [], dict(sites=sites)
    return Ob("grad/where-guard", run, "isfinite-guarded `where` branches never combine the possibly infinite value with object parameters unsanitised (reverse-mode gradients stay finite)",
              "gaussian_toolbox/experimental/truncated_measure.py::TruncatedGaussianMeasure.__post_init__", group="grad")


def obligations(tier):
    prog = model.load()
    obs = [api_resolution_ob(prog), while_loop_ob(prog), trace_synthetic_ob(), where_guard_ob(prog), gradient_flow_ob(prog), aux_equality_ob(prog)]
    for cls in dataclasses_of(prog):
        obs.append(closure_ob(prog, cls))
        obs.append(idempotence_ob(prog, cls))
        obs.append(static_children_ob(prog, cls))
        if prog.find_method(cls, "to_dict") is not None:
            obs.append(todict_ob(prog, cls))
    for name, cls, ctx, drv in apis.api_list(prog):
        obs.append(trace_ob(name, cls, ctx, drv))
    return obs


FLOORS = {"group:api": 1, "group:pytree": 60, "group:todict": 8, "group:trace": 500, "group:grad": 2}
LEVEL = "other"
EXPLANATION = ("Static protocol lints for the clauses of C18 that are visible in the shape of the code: API names resolve in the installed jax; "
               "tree_flatten/tree_unflatten closure over instance attributes; constructor idempotence; non-array fields as children; to_dict/from_dict key "
               "agreement; no array value in Python control flow on any interpreted path of the API table; while_loop results behind stop_gradient. "
               "Numerical agreement of jit/vmap/grad with eager execution is NOT decided.")

"""C09 - conditional transformation is Bayes' rule (information form)."""
from .. import nf, build, model
from ..dim import D
from ..build import sym
from ..core import Ob, Refuted
from .common import funcs_of
from . import drivers
from .drivers import cond_params, setup_cond, flat2
from .c07 import _bc, tile_c, tile_x

PROP = "C09"
C = "gaussian_toolbox/conditional.py"


def posterior_reference(c, px, sizes):
    Rc, Rx, Dy, Dx = sizes
    M, b, S, L, lds = cond_params(c, Rc, Dy, Dx)
    mx, Sx, Lx = px.f["mu"], px.f["Sigma"], px.f["Lambda"]
    nux = nf.einsum("rab,rb->ra", Lx, mx)                        # definitional information vector of the prior
    ML = nf.einsum("cyx,cyw->cxw", M, L)                         # M' Lambda   [Rc, Dx, Dy]
    MLM = nf.einsum("cxw,cwz->cxz", ML, M)
    Lpost = flat2(_bc(nf.add(nf.expand_dims(Lx, [None]), nf.expand_dims(MLM, ["k", None])), Rc, Rx))
    Spost, ldL = nf.inverse(Lpost)
    MLf = flat2(_bc(tile_x(ML, Rx), Rc, Rx))
    Mpost = nf.einsum("rab,rbc->rac", Spost, MLf)
    nuf = flat2(_bc(tile_c(nux, Rc), Rc, Rx))
    bpost = nf.einsum("rab,rb->ra", Spost, nuf)
    if b is not None:
        bf = flat2(_bc(tile_x(b, Rx), Rc, Rx))
        bpost = nf.add(bpost, nf.einsum("rac,rc->ra", Mpost, bf), -1)
    return dict(M=Mpost, b=bpost, Sigma=Spost, Lambda=Lpost, ln_det_Sigma=nf.neg(ldL))


def posterior_ob(prog, cls, ctx):
    owner, _ = prog.method(cls, "affine_conditional_transformation")
    anchor = f"{C}::{owner}.affine_conditional_transformation"

    def run():
        I, c, px, sizes = setup_cond(cls, ctx)
        res = I.call_method(c, "affine_conditional_transformation", [px])
        if not I.prog.is_subclass(res.cls, "ConditionalGaussianPDF"):
            raise Refuted(f"returns {res.cls}", anchor)
        ref = posterior_reference(c, px, sizes)
        d = []
        for fld in ("M", "b", "Sigma", "Lambda", "ln_det_Sigma"):
            d += [(fld,) + tuple(q) for q in nf.diff(res.f[fld], ref[fld], what=f"posterior {fld}")[:6]]
        return d, dict(funcs=funcs_of(I), construct=anchor)
    return Ob(f"posterior/{cls}/{ctx}", run,
              "p(x|y): Lambda = Lx + M'LM, Sigma = Inv(that value), gain = Sigma M'L, offset = Sigma nu_x - gain b, ln det = -LnDet(Lambda); layout Rc (x) Rx",
              anchor, group="posterior")


def roundtrip_ob(prog, cls):
    """p(x|y) = T_cond(p(y|x), p(x)),  p(y) = T_marg(p(y|x), p(x));  T_cond(p(x|y), p(y)) recovers p(y|x) and T_marg(p(x|y), p(y))
    recovers p(x).  Component by component (single components on both sides).

    Stated axiom (Woodbury): Inv(Sigma + M Sigma_x M') = Lambda - Lambda M Inv(Lambda_x + M' Lambda M) M' Lambda, applied by substituting
    the opaque head the analysed code produced for the left-hand side.  Because the recovered precision L_r is then *proved* equal to
    Lambda (invertible), the gain and offset are compared after multiplication with it: L_r M_r == Lambda M, L_r b_r == Lambda b
    (the products reduce by Inv(X) X = I for the value-numbered X); Sigma_r / ln det follow from the C04 invariant of the result.
    The recovered prior covariance is compared after multiplication with the (invertible) posterior precision on both sides."""
    owner, _ = prog.method(cls, "affine_conditional_transformation")
    anchor = f"{C}::{owner}.affine_conditional_transformation"

    def run():
        I, c, px, sizes = setup_cond(cls, "1/1")
        Rc, Rx, Dy, Dx = sizes
        post = I.call_method(c, "affine_conditional_transformation", [px])
        py = I.call_method(c, "affine_marginal_transformation", [px])
        back = I.call_method(post, "affine_conditional_transformation", [py])
        pxb = I.call_method(post, "affine_marginal_transformation", [py])
        for o, want in ((back, "ConditionalGaussianPDF"), (pxb, "GaussianPDF")):
            if not I.prog.is_subclass(o.cls, want):
                raise Refuted(f"round trip returns a {o.cls}", anchor)
        M, b, S, L, lds = cond_params(c, Rc, Dy, Dx)
        Sp, Lp = post.f["Sigma"], post.f["Lambda"]
        # the posterior covariance is the inverse of Lambda_x + M' Lambda M (the value the Woodbury right-hand side needs)
        Lp_ref = nf.add(px.f["Lambda"], nf.einsum("ryx,ryw,rwz->rxz", M, L, M))
        d = [("posterior precision",) + tuple(q) for q in nf.diff(Lp, Lp_ref, what="Lambda_post")[:3]]
        d += [("posterior covariance is not Inv(posterior precision)",) + tuple(q) for q in nf.diff(Sp, nf.inverse(Lp_ref)[0], what="Sigma_post")[:3]]
        d += [("Sigma_y",) + tuple(q) for q in nf.diff(py.f["Sigma"], nf.add(S, nf.einsum("ryx,rxz,rwz->ryw", M, px.f["Sigma"], M)), what="Sigma_y")[:3]]
        d += [("Lambda_y is not Inv(Sigma_y)",) + tuple(q) for q in nf.diff(py.f["Lambda"], nf.inverse(py.f["Sigma"])[0], what="Lambda_y")[:3]]
        woodbury = nf.add(L, nf.einsum("ryz,rzx,rxw,rvw,rvu->ryu", L, M, Sp, M, L), -1)

        def W(v):
            return nf.subst_head_top(v, py.f["Lambda"], woodbury, "Woodbury identity")
        Lr = back.f["Lambda"]
        d += [("recovered precision",) + tuple(q) for q in nf.diff(W(Lr), L, what="Lambda_r")[:4]]
        d += [("recovered gain (times the recovered precision)",) + tuple(q)
              for q in nf.diff(W(nf.einsum("ryz,rzx->ryx", Lr, back.f["M"])), nf.einsum("ryz,rzx->ryx", L, M), what="Lambda_r M_r")[:4]]
        Lb = W(nf.einsum("ryz,rz->ry", Lr, back.f["b"]))
        bref = nf.einsum("ryz,rz->ry", L, b) if b is not None else nf.scale(Lb, 0)
        d += [("recovered offset (times the recovered precision)",) + tuple(q) for q in nf.diff(Lb, bref, what="Lambda_r b_r")[:4]]
        d += [("recovered covariance is not Inv(recovered precision)",) + tuple(q) for q in nf.diff(back.f["Sigma"], nf.inverse(Lr)[0], what="Sigma_r")[:3]]
        # p(x) recovered by the marginal transformation of p(x|y) with p(y)
        d += [("recovered prior mean",) + tuple(q) for q in nf.diff(pxb.f["mu"], px.f["mu"], what="mu_x")[:4]]
        d += [("recovered prior covariance (between posterior precisions)",) + tuple(q)
              for q in nf.diff(nf.einsum("rab,rbc,rcd->rad", Lp, pxb.f["Sigma"], Lp), nf.einsum("rab,rbc,rcd->rad", Lp, px.f["Sigma"], Lp), what="Lp Sigma_x Lp")[:4]]
        return d, dict(funcs=funcs_of(I), construct=anchor)
    return Ob(f"roundtrip/{cls}", run,
              "T_cond(T_cond(p(y|x), p(x)), T_marg(p(y|x), p(x))) == p(y|x) and T_marg(T_cond(..), T_marg(..)) == p(x): precision by the Woodbury axiom, "
              "gain / offset / prior covariance after multiplication with the proved-invertible precision, prior mean directly",
              anchor, group="roundtrip")


def obligations(tier):
    prog = model.load()
    obs = [posterior_ob(prog, cls, ctx) for cls in drivers.COND_CLASSES for ctx in drivers.BATCH_CTX + drivers.ROUTE_CTX]
    obs += [roundtrip_ob(prog, cls) for cls in drivers.COND_CLASSES]
    return obs


FLOORS = {"group:posterior": 12, "group:roundtrip": 4}
LEVEL = "proof"
EXPLANATION = ("affine_conditional_transformation of every linear conditional class in the three batch configurations against the information-form posterior; "
               "round trip (recover p(y|x) and p(x) from p(x|y) and p(y)) for single components with the Woodbury identity as a stated axiom.")

"""C09 - conditional transformation is Bayes' rule (information form)."""
from .. import nf, build, model
from ..dim import D
from ..build import sym
from ..core import Ob, Refuted
from .common import funcs_of
from . import drivers
from .drivers import cond_params, setup_cond, flat2
from .c07 import _bc, tile_c, tile_x

PROP = "C09"
C = "gaussian_toolbox/conditional.py"


def posterior_reference(c, px, sizes):
    Rc, Rx, Dy, Dx = sizes
    M, b, S, L, lds = cond_params(c, Rc, Dy, Dx)
    mx, Sx, Lx = px.f["mu"], px.f["Sigma"], px.f["Lambda"]
    nux = nf.einsum("rab,rb->ra", Lx, mx)                        # definitional information vector of the prior
    ML = nf.einsum("cyx,cyw->cxw", M, L)                         # M' Lambda   [Rc, Dx, Dy]
    MLM = nf.einsum("cxw,cwz->cxz", ML, M)
    Lpost = flat2(_bc(nf.add(nf.expand_dims(Lx, [None]), nf.expand_dims(MLM, ["k", None])), Rc, Rx))
    Spost, ldL = nf.inverse(Lpost)
    MLf = flat2(_bc(tile_x(ML, Rx), Rc, Rx))
    Mpost = nf.einsum("rab,rbc->rac", Spost, MLf)
    nuf = flat2(_bc(tile_c(nux, Rc), Rc, Rx))
    bpost = nf.einsum("rab,rb->ra", Spost, nuf)
    if b is not None:
        bf = flat2(_bc(tile_x(b, Rx), Rc, Rx))
        bpost = nf.add(bpost, nf.einsum("rac,rc->ra", Mpost, bf), -1)
    return dict(M=Mpost, b=bpost, Sigma=Spost, Lambda=Lpost, ln_det_Sigma=nf.neg(ldL))


def posterior_ob(prog, cls, ctx):
    owner, _ = prog.method(cls, "affine_conditional_transformation")
    anchor = f"{C}::{owner}.affine_conditional_transformation"

    def run():
        I, c, px, sizes = setup_cond(cls, ctx)
        res = I.call_method(c, "affine_conditional_transformation", [px])
        if not I.prog.is_subclass(res.cls, "ConditionalGaussianPDF"):
            raise Refuted(f"returns {res.cls}", anchor)
        ref = posterior_reference(c, px, sizes)
        d = []
        for fld in ("M", "b", "Sigma", "Lambda", "ln_det_Sigma"):
            d += [(fld,) + tuple(q) for q in nf.diff(res.f[fld], ref[fld], what=f"posterior {fld}")[:6]]
        return d, dict(funcs=funcs_of(I), construct=anchor)
    return Ob(f"posterior/{cls}/{ctx}", run,
              "p(x|y): Lambda = Lx + M'LM, Sigma = Inv(that value), gain = Sigma M'L, offset = Sigma nu_x - gain b, ln det = -LnDet(Lambda); layout Rc (x) Rx",
              anchor, group="posterior")


def obligations(tier):
    prog = model.load()
    return [posterior_ob(prog, cls, ctx) for cls in drivers.COND_CLASSES for ctx in drivers.BATCH_CTX + drivers.ROUTE_CTX]


FLOORS = {"group:posterior": 12}
LEVEL = "proof"
EXPLANATION = "affine_conditional_transformation of every linear conditional class in the three batch configurations against the information-form posterior."

"""Context construction shared by the property modules (finite part of the quantifier, DESIGN.md 2.6)."""
from .. import nf, build
from ..nf import Val
from ..dim import Dim, D, LOG2PI
from ..build import sym

COND_CLASSES = ["ConditionalGaussianPDF", "ConditionalGaussianDiagPDF", "ConditionalIdentityGaussianPDF",
                "ConditionalIdentityDiagGaussianPDF"]
BATCH_CTX = ["1/1", "n/1", "1/n"]          # (R_cond / R_x)   ; "n/n" raises RuntimeError("... multiple marginals with multiple conditional is not implemented") in the library: outside its domain
ROUTE_CTX = ["1/1@Sigma", "1/1@Lambda", "n/1@Lambda", "1/1@updated", "n/1@updated", "1/1@diagprior", "n/1@Dy=1", "1/n@Dx=1"]     # constructor routes of the conditional (covariance only / precision only)
REGIMES = ["Dx>Dy", "Dx<=Dy"]


def is_identity(cls):
    return "Identity" in cls


def cond_sizes(cls, ctx):
    Rc = sym("Rc") if ctx.split("/")[0] == "n" else D(1)
    Rx = sym("Rx") if ctx.split("/")[1] == "n" else D(1)
    if is_identity(cls):
        Dy = Dx = sym("Dy")
    else:
        Dy, Dx = sym("Dy"), sym("Dx")
    return Rc, Rx, Dy, Dx


def regime_facts(Dx, Dy, regime):
    if Dx == Dy:
        return {}
    gt = regime == "Dx>Dy"
    return {("lt", repr(Dy), repr(Dx)): gt, ("le", repr(Dx), repr(Dy)): not gt}


CTOR_ROUTES = ["full", "Sigma", "Lambda"]


def split_ctx(ctx):
    """'n/1' or 'n/1@Lambda' -> (batch ctx, constructor route)"""
    if "@" in ctx:
        b, a = ctx.split("@")
        return b, a
    return ctx, "full"


def setup_cond(cls, ctx, regime="Dx<=Dy", px_args="full"):
    """returns I, cond, p_x, sizes"""
    ctx, cargs = split_ctx(ctx)
    Rc, Rx, Dy, Dx = cond_sizes(cls, ctx)
    if cargs in ("Dy=1", "Dx=1"):
        # special sizes: a shortcut that switches on at `Dy == 1` / `Dx == 1` is never entered by the generic-size contexts
        if is_identity(cls):
            Dy = Dx = D(1)
        elif cargs == "Dy=1":
            Dy = D(1)
        else:
            Dx = D(1)
        cargs = "full"
    I = build.new_interp(facts=regime_facts(Dx, Dy, regime))
    if cargs == "updated":
        # history context: the noise covariance was replaced through the public mutator update_Sigma
        c = build.conditional(I, Rc, Dy, Dx, "c", cls=cls, args="full")
        S2 = nf.atom("Sigma2(c)", [Rc, Dy, Dy], sym=True, owner="c")
        I.call_method(c, "update_Sigma", [S2])
        c.meta["given"] = {"Sigma": S2}
    elif cargs == "diagprior":
        # the prior is a GaussianDiagPDF instance (results must not inherit its class unless their covariance is diagonal)
        c = build.conditional(I, Rc, Dy, Dx, "c", cls=cls, args="full")
        px = build.pdf(I, Rx, Dx, "px", cls="GaussianDiagPDF", args="Sigma", diag=True)
        return I, c, px, (Rc, Rx, Dy, Dx)
    else:
        c = build.conditional(I, Rc, Dy, Dx, "c", cls=cls, args=cargs)
    px = build.pdf(I, Rx, Dx, "px", args=px_args)
    return I, c, px, (Rc, Rx, Dy, Dx)


def cond_params(c, Rc, Dy, Dx):
    """definitional (M, b, Sigma, Lambda, lds) of a linear conditional; identity classes: M = I, b = 0."""
    g = c.meta.get("given", {})
    if "Sigma" in g:
        # definitional noise parameters from the covariance the user supplied (independent of __post_init__)
        S = g["Sigma"]
        L, lds = nf.inverse(S)
    elif "Lambda" in g:
        L = g["Lambda"]
        S, ldL = nf.inverse(L)
        lds = nf.neg(ldL)
    else:
        S, L, lds = c.f["Sigma"], c.f["Lambda"], c.f["ln_det_Sigma"]
    if is_identity(c.cls):
        M = nf.expand_dims(nf.eye(Dy), [None])
        b = None
    else:
        # the parameters the USER passed (a constructor that overwrites them - `if self.b is not None: self.b = zeros` - must not be able
        # to hide behind a reference that reads the object's own fields; found by the mutation sweep)
        M, b = g.get("M", c.f["M"]), g.get("b", c.f["b"])
    return M, b, S, L, lds


def outer_batch(v_c, v_x, n_c, n_x):
    """combine a per-conditional array [Rc, ...] (n_c trailing axes) and a per-prior array [Rx, ...] in the documented
    layout  Rc (x) Rx  -> leading axis (rc, rx)."""
    raise NotImplementedError


def flat2(v, k=2):
    """merge the first k axes into one (row-major)."""
    shp = list(v.shape)
    t = D(1)
    for s in shp[:k]:
        t = t * s
    return nf.reshape(v, [t] + shp[k:])

"""C16 (partial) - moment matching of approximate conditionals: assembly of E[y], Cov[y], E[yx'] from kernel / noise expectations,
link wiring, unit-height kernels, conditional covariance of heteroscedastic models."""
from .. import nf, build, model
from ..nf import Val, Undecided
from ..dim import D, LOG2PI
from ..build import sym
from ..core import Ob, Refuted
from .common import funcs_of
from .approx import make_approx
from .drivers import flat2

PROP = "C16"
A_ = "gaussian_toolbox/approximate_conditional.py"
FEATURE = ["LRBFGaussianConditional", "LSEMGaussianConditional"]
HETERO = ["HeteroscedasticExpConditional", "HeteroscedasticCoshM1Conditional", "HeteroscedasticHeavisideConditional", "HeteroscedasticReLUConditional"]


# ------------------------------------------------------------------ reference expectations (written from the mathematics)
def mass_and_mean(Lam, nu, lb):
    """total mass and mean of the (un-normalised) Gaussian  exp(-1/2 x'Lam x + nu'x + lb)."""
    Sig, ldL = nf.inverse(Lam)
    mu = nf.einsum("rab,rb->ra", Sig, nu)
    Dd = Lam.shape[-1]
    lnZ = nf.scale(nf.add(nf.add(nf.einsum("ra,rab,rb->r", nu, Sig, nu), nf.const(Dd * LOG2PI)), ldL, -1), D(1) / 2)
    return nf.elementwise("Exp", nf.add(lnZ, lb)), mu


def kernel_params(c):
    """natural parameters (Lam_k [Dk,Dx,Dx], nu_k [Dk,Dx], lb_k [Dk]) of the kernels k_i(x) = exp(-1/2 x'Lam x + nu'x + lb), read from the object."""
    k = c.f["k_func"]
    return k.f["Lambda"], k.f["nu"], k.f["ln_beta"]


def product_params(px, ks):
    """parameters of p(x) * prod_j k_{i_j}(x) in layout (r, i_1, .., i_n) flattened row-major."""
    Lam, nu, lb = px.f["Lambda"], px.f["nu"], px.f["ln_beta"]
    n = len(ks)
    for j, (Lk, nk, bk) in enumerate(ks):
        pre = ["k"] + [None] * 0
        # existing batch rank = 1 + j ; append kernel axis at the end of the batch axes
        Lam = nf.add(nf.expand_dims(Lam, ["k"] * (1 + j) + [None]), nf.expand_dims(Lk, [None] * (1 + j)))
        nu = nf.add(nf.expand_dims(nu, ["k"] * (1 + j) + [None]), nf.expand_dims(nk, [None] * (1 + j)))
        lb = nf.add(nf.expand_dims(lb, ["k"] * (1 + j) + [None]), nf.expand_dims(bk, [None] * (1 + j)))
    return flat2(Lam, 1 + n), flat2(nu, 1 + n), flat2(lb, 1 + n)


def rank_one_update(Sig, lds, nu, lb, v, g, nuk, lbk):
    """p(x) * k_i(x) for rank-one kernels k_i = exp(-1/2 g_i (v_i'x)^2 + nuk_i'x + lbk_i) by the Sherman-Morrison formula and the
    matrix determinant lemma (mathematical identities used as the oracle; that they give the inverse / determinant of
    Lambda + g vv' is proved separately in C04).  Batch layout: existing batch axes x kernel axis (appended, row-major)."""
    nb = len(lds.axes)
    B = "pqrs"[:nb]
    Sv = nf.einsum(f"{B}ab,kb->{B}ka", Sig, v)
    vSv = nf.einsum(f"{B}ka,ka->{B}k", Sv, v)
    den = nf.add(nf.const(1), nf.mul(nf.expand_dims(g, [None] * nb), vSv))
    rec = nf.elementwise("Recip", den)
    corr = nf.mul(nf.expand_dims(nf.mul(nf.expand_dims(g, [None] * nb), rec), ["k"] * (nb + 1) + [None, None]), nf.einsum(f"{B}ka,{B}kb->{B}kab", Sv, Sv))
    Sig2 = nf.add(nf.expand_dims(Sig, ["k"] * nb + [None]), corr, -1)
    lds2 = nf.add(nf.expand_dims(lds, ["k"] * nb + [None]), nf.elementwise("Log", den), -1)
    nu2 = nf.add(nf.expand_dims(nu, ["k"] * nb + [None]), nf.expand_dims(nuk, [None] * nb))
    lb2 = nf.add(nf.expand_dims(lb, ["k"] * nb + [None]), nf.expand_dims(lbk, [None] * nb))
    return Sig2, lds2, nu2, lb2


def mass_mean_cov(Sig, lds, nu, lb, Dd):
    nb = len(lds.axes)
    B = "pqrs"[:nb]
    mu = nf.einsum(f"{B}ab,{B}b->{B}a", Sig, nu)
    lnZ = nf.scale(nf.add(nf.add(nf.einsum(f"{B}a,{B}ab,{B}b->{B}", nu, Sig, nu), nf.const(Dd * LOG2PI)), lds), D(1) / 2)
    return nf.elementwise("Exp", nf.add(lnZ, lb)), mu


def feature_reference_rank_one(c, px, R, Dy, Dx, Dk):
    k = c.f["k_func"]
    v, g, nuk, lbk = k.f["v"], k.f["g"], k.f["nu"], k.f["ln_beta"]
    mx, Sx = px.f["mu"], px.f["Sigma"]
    S1, l1, n1, b1 = rank_one_update(Sx, px.f["ln_det_Sigma"], px.f["nu"], px.f["ln_beta"], v, g, nuk, lbk)
    m1, mu1 = mass_mean_cov(S1, l1, n1, b1, Dx)                 # [R,Dk], [R,Dk,Dx]
    Ek = m1
    Ekx = nf.mul(nf.expand_dims(m1, ["k", "k", None]), mu1)
    S2, l2, n2, b2 = rank_one_update(S1, l1, n1, b1, v, g, nuk, lbk)
    m2, _ = mass_mean_cov(S2, l2, n2, b2, Dx)                  # [R,Dk,Dk]
    Ekk = m2
    Exx = nf.add(Sx, nf.einsum("ra,rb->rab", mx, mx))
    Ephi = nf.concat([mx, Ek], 1)
    Eff = nf.concat([nf.concat([Exx, nf.swapaxes(Ekx, 1, 2)], 2), nf.concat([Ekx, Ekk], 2)], 1)
    Efx = nf.concat([Exx, Ekx], 1)
    return Ephi, Eff, Efx


def feature_reference(c, px, R, Dy, Dx, Dk):
    if c.f["k_func"].cls == "OneRankFactor":
        return feature_reference_rank_one(c, px, R, Dy, Dx, Dk)
    return feature_reference_full(c, px, R, Dy, Dx, Dk)


def feature_reference_full(c, px, R, Dy, Dx, Dk):
    """E[phi], E[phi phi'], E[phi x'] with phi(x) = (x, k_1(x), .., k_Dk(x)) under the density p(x)."""
    kp = kernel_params(c)
    mx, Sx = px.f["mu"], px.f["Sigma"]
    L1, n1, b1 = product_params(px, [kp])
    m1, mu1 = mass_and_mean(L1, n1, b1)                         # [(r,k)], [(r,k),Dx]
    Ek = nf.reshape(m1, [R, Dk])
    Ekx = nf.reshape(nf.mul(nf.expand_dims(m1, ["k", None]), mu1), [R, Dk, Dx])      # E[k x']
    L2, n2, b2 = product_params(px, [kp, kp])
    m2, _ = mass_and_mean(L2, n2, b2)
    Ekk = nf.reshape(m2, [R, Dk, Dk])
    Exx = nf.add(Sx, nf.einsum("ra,rb->rab", mx, mx))
    Ephi = nf.concat([mx, Ek], 1)
    Eff = nf.concat([nf.concat([Exx, nf.swapaxes(Ekx, 1, 2)], 2), nf.concat([Ekx, Ekk], 2)], 1)
    Efx = nf.concat([Exx, Ekx], 1)                               # E[phi x']  [R, Dx+Dk, Dx]
    return Ephi, Eff, Efx


def sym2(v):
    return nf.scale(nf.add(v, nf.swapaxes(v, -1, -2)), D(1) / 2)


def feature_moments_ob(cls):
    def run():
        I = build.new_interp()
        c = make_approx(I, cls, "c")
        R, Dy, Dx, Dk = sym("R"), sym("Dy"), sym("Dx"), sym("Dk")
        px = build.pdf(I, R, Dx, "px")
        mu_y, Sig_y = I.call_method(c, "get_expected_moments", [px])
        Eyx = I.call_method(c, "get_expected_cross_terms", [px])
        Ephi, Eff, Efx = feature_reference(c, px, R, Dy, Dx, Dk)
        M = Val(c.f["M"].axes[1:], c.f["M"].terms)             # [Dy, Dphi]
        b = Val(c.f["b"].axes[1:], c.f["b"].terms)
        S = c.f["Sigma"]
        my_ref = nf.add(nf.einsum("yf,rf->ry", M, Ephi), nf.expand_dims(b, [None]))
        Eyy = nf.add(nf.einsum("yf,rfg,wg->ryw", M, Eff, M), nf.expand_dims(Val(S.axes[1:], S.terms), [None]))
        Mb = nf.einsum("yf,rf,w->ryw", M, Ephi, b)
        Eyy = nf.add(nf.add(Eyy, Mb), nf.swapaxes(Mb, 1, 2))
        Eyy = nf.add(Eyy, nf.expand_dims(nf.einsum("y,w->yw", b, b), [None]))
        Sy_ref = sym2(nf.add(Eyy, nf.einsum("ry,rw->ryw", my_ref, my_ref), -1))
        Eyx_ref = nf.add(nf.einsum("yf,rfx->ryx", M, Efx), nf.einsum("y,rx->ryx", b, px.f["mu"]))
        d = [("E[y]",) + tuple(q) for q in nf.diff(mu_y, my_ref, what="E[y]")[:4]]
        d += [("Cov[y]",) + tuple(q) for q in nf.diff(Sig_y, Sy_ref, what="Cov[y]")[:4]]
        d += [("E[yx']",) + tuple(q) for q in nf.diff(Eyx, Eyx_ref, what="E[yx']")[:4]]
        return d, dict(funcs=funcs_of(I))
    return Ob(f"moments/{cls}", run,
              "E[y] = M E[phi] + b, Cov[y] = Sigma + M E[phi phi'] M' + ... - E[y]E[y]', E[yx'] = M E[phi x'] + b E[x]' with E[k], E[kx'], E[kk'] the masses / means of p*k, p*k*k' (reference formulas); kernel layout (r,k), (r,k,k')",
              f"{A_}::LConjugateFactorMGaussianConditional.get_expected_moments", group="moments")


def hetero_noise_reference(c, cls, px, Dk):
    """E[D_k(x)] under p(x) for the exp / cosh-1 links, closed form:  E exp(+-(w'x + w0)) = exp(+-(w'mu + w0) + 1/2 w'Sigma w)."""
    W = c.f["W"]
    w0 = nf.slice_axis(W, 1, 0, 1)
    w0 = Val([w0.axes[0]], w0.terms)
    w = nf.slice_axis(W, 1, 1, W.shape[1])
    mx, Sx = px.f["mu"], px.f["Sigma"]
    mx0, Sx0 = Val(mx.axes[1:], mx.terms), Val(Sx.axes[1:], Sx.terms)       # p_x.R == 1 (contract of the heteroscedastic classes)
    lin = nf.add(nf.einsum("kx,x->k", w, mx0), w0)
    quad = nf.scale(nf.einsum("kx,xz,kz->k", w, Sx0, w), D(1) / 2)
    from ..dim import LOG2
    if "Heaviside" in cls or "ReLU" in cls:
        # h = w'x + w0 ~ N(m, s^2):  E[step(h)] = Phi(m/s),  E[max(h,0)] = m Phi(m/s) + s phi(m/s)
        from ..intrinsics import elementwise_inf
        s2 = nf.einsum("kx,xz,kz->k", w, Sx0, w)
        z = nf.mul(lin, nf.elementwise("Sqrt", nf.elementwise("Recip", s2)))
        Ph = elementwise_inf("Phi", z)
        if "Heaviside" in cls:
            return Ph
        return nf.add(nf.mul(lin, Ph), nf.mul(nf.elementwise("Sqrt", s2), elementwise_inf("phi", z)))
    if "Exp" in cls:
        return nf.elementwise("Exp", nf.add(lin, quad))
    ep = nf.elementwise("Exp", nf.add(nf.add(lin, quad), nf.const(-LOG2)))
    em = nf.elementwise("Exp", nf.add(nf.add(nf.neg(lin), quad), nf.const(-LOG2)))
    return nf.add(nf.add(ep, em), nf.const(-1))


def hetero_moments_ob(cls):
    def run():
        nf.ST.generic_nonzero = True
        I = build.new_interp()
        c = make_approx(I, cls, "c")
        Dy, Dx, Dk = sym("Dy"), sym("Dx"), sym("Dk")
        px = build.pdf(I, D(1), Dx, "px")
        mu_y, Sig_y = I.call_method(c, "get_expected_moments", [px])
        Eyx = I.call_method(c, "get_expected_cross_terms", [px])
        M, b, A = c.f["M"], c.f["b"], c.f["A"]
        mx, Sx = px.f["mu"], px.f["Sigma"]
        ED = hetero_noise_reference(c, cls, px, Dk)
        Ak = nf.slice_axis(A, 2, 0, Dk)
        AA = nf.einsum("ryk,rwk->ryw", A, A)
        my_ref = nf.add(nf.einsum("ryx,rx->ry", M, mx), b)
        Sy_ref = nf.add(nf.add(AA, nf.einsum("ryk,k,rwk->ryw", Ak, ED, Ak)), nf.einsum("ryx,rxz,rwz->ryw", M, Sx, M))
        Exx = nf.add(Sx, nf.einsum("ra,rb->rab", mx, mx))
        Eyx_ref = nf.add(nf.einsum("ryx,rxz->ryz", M, Exx), nf.einsum("ry,rz->ryz", b, mx))
        d = [("E[y]",) + tuple(q) for q in nf.diff(mu_y, my_ref, what="E[y]")[:4]]
        d += [("Cov[y]",) + tuple(q) for q in nf.diff(Sig_y, sym2(Sy_ref), what="Cov[y]")[:4]]
        d += [("E[yx']",) + tuple(q) for q in nf.diff(Eyx, Eyx_ref, what="E[yx']")[:4]]
        return d, dict(funcs=funcs_of(I))
    return Ob(f"moments/{cls}", run,
              "E[y] = M mu + b, Cov[y] = AA' + A_k diag(E[link(Wx+w0)]) A_k' + M Sigma_x M' with the closed-form E exp(+-h), E[yx'] = M E[xx'] + b mu'",
              f"{A_}::HeteroscedasticConditional.get_expected_moments", group="moments")


def assembly_ob(cls):
    """joint / marginal / conditional are assembled from exactly the matched moments (blocks, x first) and constructed from (Sigma, mu) only."""
    def run():
        nf.ST.generic_nonzero = True
        I = build.new_interp()
        c = make_approx(I, cls, "c")
        Dy, Dx = sym("Dy"), sym("Dx")
        R = sym("R") if cls in FEATURE else D(1)
        px = build.pdf(I, R, Dx, "px")
        mu_y, Sig_y = I.call_method(c, "get_expected_moments", [px])
        Eyx = I.call_method(c, "get_expected_cross_terms", [px])
        mx, Sx = px.f["mu"], px.f["Sigma"]
        cov = nf.add(Eyx, nf.einsum("ry,rx->ryx", mu_y, mx), -1)
        d = []
        # marginal
        pm = I.call_method(c, "affine_marginal_transformation", [px])
        d += [("marginal mu",) + tuple(q) for q in nf.diff(pm.f["mu"], mu_y)[:3]]
        d += [("marginal Sigma",) + tuple(q) for q in nf.diff(pm.f["Sigma"], Sig_y)[:3]]
        # joint (x first)
        pj = I.call_method(c, "affine_joint_transformation", [px])
        mu_ref = nf.concat([mx, mu_y], 1)
        S_ref = nf.concat([nf.concat([Sx, nf.swapaxes(cov, 1, 2)], 2), nf.concat([cov, Sig_y], 2)], 1)
        d += [("joint mu",) + tuple(q) for q in nf.diff(pj.f["mu"], mu_ref)[:3]]
        d += [("joint Sigma",) + tuple(q) for q in nf.diff(pj.f["Sigma"], S_ref)[:3]]
        for p_, S_, nm in ((pm, Sig_y, "marginal"), (pj, S_ref, "joint")):
            Lr, ldr = nf.inverse(S_)
            d += [(nm + " Lambda (derived by the constructor)",) + tuple(q) for q in nf.diff(p_.f["Lambda"], Lr)[:2]]
            d += [(nm + " ln_det_Sigma (derived)",) + tuple(q) for q in nf.diff(p_.f["ln_det_Sigma"], ldr)[:2]]
        # conditional = Gaussian conditional of that joint:  M = C_xy S_y^-1, b = mu_x - M mu_y, Sigma = S_x - M C_yx
        pc = I.call_method(c, "affine_conditional_transformation", [px])
        Ly, _ = nf.inverse(Sig_y)
        M_ref = nf.einsum("ryx,ryw->rxw", cov, Ly)
        b_ref = nf.add(mx, nf.einsum("rxw,rw->rx", M_ref, mu_y), -1)
        Sc_ref = nf.add(Sx, nf.einsum("rxw,rwz->rxz", M_ref, cov), -1)
        if cls in FEATURE:
            Sc_ref = sym2(Sc_ref)
        d += [("conditional M",) + tuple(q) for q in nf.diff(pc.f["M"], M_ref)[:3]]
        d += [("conditional b",) + tuple(q) for q in nf.diff(pc.f["b"], b_ref)[:3]]
        d += [("conditional Sigma",) + tuple(q) for q in nf.diff(pc.f["Sigma"], Sc_ref)[:3]]
        return d, dict(funcs=funcs_of(I))
    return Ob(f"assembly/{cls}", run,
              "marginal = N(E[y], Cov[y]); joint = N([mu_x; E[y]], [[S_x, C'],[C, Cov[y]]]) with C = E[yx'] - E[y]mu_x'; conditional = Gaussian conditional of that joint; densities derived from (Sigma, mu)",
              f"{A_}::{'LConjugateFactorMGaussianConditional' if cls in FEATURE else 'HeteroscedasticConditional'}.affine_joint_transformation", group="assembly")


def unit_height_ob(cls):
    def run():
        I = build.new_interp()
        c = make_approx(I, cls, "c")
        Dx, Dk, N = sym("Dx"), sym("Dk"), sym("N")
        k = c.f["k_func"]
        if cls == "LRBFGaussianConditional":
            centres = c.f["mu"]
            v = I.call_method(k, "evaluate_ln", [centres], dict(element_wise=True))
            d = nf.diff(v, nf.scale(v, 0), what="ln k_i(centre_i)")
        else:
            # squared exponential: ln k_i(x) == -1/2 (w_i'x -/+ w0_i)^2 : a unit-height bump in the direction w_i
            x = build.points("x", N, Dx)
            v = I.call_method(k, "evaluate_ln", [x])                      # [Dk, N]
            W = I.prog.field_table(cls) and c.f["W"]                      # already stripped of the offset column by __post_init__
            w0 = c.f["w0"]
            h = nf.einsum("kx,nx->kn", W, x)
            ok = None
            for s in (1, -1):
                hh = nf.add(h, nf.expand_dims(w0, ["k", None]), -s)
                ref = nf.scale(nf.mul(hh, hh), D(-1) / 2)
                dd = nf.diff(v, ref, what="ln k(x)")
                if not dd:
                    ok = s
                    break
            d = [] if ok is not None else dd
        return d, dict(funcs=funcs_of(I))
    return Ob(f"unit-height/{cls}", run, "kernels have unit height: ln k_i(centre_i) == 0 (RBF); ln k_i(x) == -1/2 (w_i'x -+ w0_i)^2 (squared exponential)",
              f"{A_}::{cls}.update_phi", group="kernel")


def feature_mean_ob(cls):
    def run():
        I = build.new_interp()
        c = make_approx(I, cls, "c")
        Dy, Dx, Dk, N = sym("Dy"), sym("Dx"), sym("Dk"), sym("N")
        x = build.points("x", N, Dx)
        got = I.call_method(c, "get_conditional_mu", [x])
        k = c.f["k_func"]
        kx = nf.elementwise("Exp", build.factor_ln(x, k.f["Lambda"], k.f["nu"], k.f["ln_beta"]))     # [Dk, N]
        phi = nf.concat([x, nf.transpose(kx)], 1)
        M = Val(c.f["M"].axes[1:], c.f["M"].terms)
        b = Val(c.f["b"].axes[1:], c.f["b"].terms)
        ref = nf.add(nf.einsum("yf,nf->ny", M, phi), nf.expand_dims(b, [None]))
        return nf.diff(got, ref, what="conditional mean"), dict(funcs=funcs_of(I))
    return Ob(f"mean/{cls}", run, "conditional mean == M (x, k_1(x), .., k_n(x)) + b: linear read-out of x (first Dx columns) and of the kernels (remaining Dk columns)",
              f"{A_}::LConjugateFactorMGaussianConditional.get_conditional_mu", group="kernel")


def hetero_condition_ob(cls):
    def run():
        I = build.new_interp()
        c = make_approx(I, cls, "c")
        Dy, Dx, Dk, N = sym("Dy"), sym("Dx"), sym("Dk"), sym("N")
        x = build.points("x", N, Dx)
        q = I.call_method(c, "condition_on_x", [x])
        M, b, A, W = c.f["M"], c.f["b"], c.f["A"], c.f["W"]
        w0 = nf.slice_axis(W, 1, 0, 1)
        w0 = Val([w0.axes[0]], w0.terms)
        w = nf.slice_axis(W, 1, 1, W.shape[1])
        h = nf.add(nf.einsum("kx,nx->nk", w, x), nf.expand_dims(w0, [None]))
        Dh = I.call_method(c, "link_function", [h])
        A0 = Val(A.axes[1:], A.terms)
        Ak = nf.slice_axis(A0, 1, 0, Dk)
        S_ref = nf.add(nf.expand_dims(nf.einsum("yk,wk->yw", A0, A0), [None]), nf.einsum("yk,nk,wk->nyw", Ak, Dh, Ak))
        m_ref = nf.add(nf.einsum("ryx,nx->ny", M, x), b)
        d = [("Sigma(x)",) + tuple(z) for z in nf.diff(q.f["Sigma"], S_ref, what="Sigma(x)")[:4]]
        d += [("mu(x)",) + tuple(z) for z in nf.diff(q.f["mu"], m_ref, what="mu(x)")[:4]]
        # link wiring: the LinearFactor used for the expected noise evaluates to the same linear layer
        return d, dict(funcs=funcs_of(I))
    return Ob(f"condition_on_x/{cls}", run, "cond(x) has mean Mx+b and covariance AA' + A_k diag(link(W[:,1:] x + W[:,0])) A_k' (column 0 = offset, columns 1: = weights)",
              f"{A_}::HeteroscedasticConditional.get_conditional_cov", group="hetero")


def link_ob(cls):
    """the link function of each heteroscedastic class is the documented one - exp(h), cosh(h) - 1, 1(h >= 0), max(h, 0).  The conditional-covariance
    obligation evaluates the library's own link_function for its reference, and the expected noise is computed by separate closed forms, so an edit of
    the link alone (threshold of the step, `cosh(h) - 1` -> `cosh(h)`) was reported by no check (mutation sweep)."""
    def run():
        from ..intrinsics import _compare_vals
        I = build.new_interp()
        c = make_approx(I, cls, "c")
        h = nf.atom("h", [sym("N"), sym("Dk")])
        got = I.call_method(c, "link_function", [h])
        if "Exp" in cls:
            ref = nf.elementwise("Exp", h)
        elif "Cosh" in cls:
            ref = nf.add(nf.elementwise("Cosh", h), nf.const(-1))
        elif "Heaviside" in cls:
            ref = _compare_vals("Ge", h, 0)
            ref = Val(ref.axes, ref.terms)
            got = Val(got.axes, got.terms)
        else:
            ref = nf.elementwise("Relu", h)
        return [tuple(z) for z in nf.diff(got, ref, what="link(h)")[:4]], dict(funcs=funcs_of(I))
    return Ob(f"link/{cls}", run, "link_function(h) is the documented link: exp(h) / cosh(h) - 1 / 1(h >= 0) / max(h, 0)", f"{A_}::{cls}.link_function", group="hetero")


def obligations(tier):
    obs = []
    for cls in FEATURE:
        obs.append(feature_mean_ob(cls))
        obs.append(unit_height_ob(cls))
        obs.append(feature_moments_ob(cls))
    for cls in HETERO:
        obs.append(hetero_condition_ob(cls))
        obs.append(link_ob(cls))
        obs.append(hetero_moments_ob(cls))
    for cls in FEATURE + HETERO:
        obs.append(assembly_ob(cls))
    from .c20 import summary_ob
    obs += [summary_ob("normal_cdf"), summary_ob("normal_pdf")]      # the step / rectified-linear moments are stated in Phi / phi
    return obs


FLOORS = {"group:moments": 6, "group:assembly": 6, "group:kernel": 4, "group:hetero": 8, "group:summary": 2}
LEVEL = "other"
EXPLANATION = ("Partial: the ASSEMBLY of the matched moments is decided (E[y], Cov[y], E[yx'] as polynomials in kernel / noise expectations computed by independent "
               "reference formulas; block layout and kernel layouts; link wiring; unit-height kernels; heteroscedastic conditional covariance) for all four links "
               "(exp, cosh-1: closed-form E exp(+-h); step, rectified linear: Phi / phi closed forms of the one-dimensional truncated Gaussian, with misc.normal_cdf/pdf "
               "summarised as Phi/phi). The claim that each kernel expectation equals the true integral of the non-linear model (quadrature level) is NOT decided.")

"""Table of public operations x receiver class x context with drivers (used by C04, C12, C15, C18).

Each driver returns a dict:  I, operands (owner tag -> Obj), result (Val | Obj | tuple | None),
batch: ordered list of owner tags that make up the result's leading (component) axis, or "reduce".
"""
from .. import nf, build, wick
from ..nf import Val
from ..dim import D
from ..build import sym
from . import drivers
from .common import make_measure, make_factor, FACTOR_KINDS
from .c03 import table_keys

MEASURE_KINDS = ["cold", "warm", "diag", "pdf", "diagpdf"]
KIND_CLASS = {"cold": "GaussianMeasure", "warm": "GaussianMeasure", "diag": "GaussianDiagMeasure", "diagwarm": "GaussianDiagMeasure", "pdf": "GaussianPDF", "diagpdf": "GaussianDiagPDF"}


def _std_kwargs(key, R, Dd):
    """per-component coefficients for an integration-table key."""
    facs = wick.parse_key(key)
    letters, outl = wick.chain(facs)
    kw = {}
    names = {"k": "K", "l": "L", "m": "M", "n": "N4", "o": "O5"}
    for f, L in zip(facs, letters):
        if f["kind"] == "affine":
            K = sym(names[L])
            kw[f["mat"]] = nf.atom(f["mat"], [R, K, Dd], owner="coef")
            kw[f["vec"]] = nf.atom(f["vec"], [R, K], owner="coef")
        elif f["kind"] == "scalar_affine":
            kw[f["mat"]] = nf.atom(f["mat"], [R, 1, Dd], owner="coef")
            kw[f["vec"]] = nf.atom(f["vec"], [R, 1], owner="coef")
        elif f["kind"] == "scalar_bx":
            kw[f["mat"]] = nf.atom(f["mat"], [R, Dd], owner="coef")
    return kw


def api_list(prog):
    """list of (api name, class tag, context tag, driver)."""
    out = []
    R, Dd, N = sym("R"), sym("D"), sym("N")

    # ---------------- factors / measures: unary
    def unary(kind, meth, args_fn, is_measure):
        def run():
            I = build.new_interp()
            o = make_measure(I, kind, R, Dd, "u") if is_measure else make_factor(I, kind, R, Dd, "u")
            args, kw = args_fn()
            res = I.call_method(o, meth, args, kw)
            return dict(I=I, operands={"u": o}, result=res, batch=["u"] if meth != "product" else "reduce")
        return run
    for kind in FACTOR_KINDS:
        for meth in ("evaluate_ln", "evaluate", "__call__"):
            out.append((meth, kind, "R", unary(kind, meth, lambda: ([build.points("x", N, Dd)], {}), False)))
            out.append((meth, kind, "R/elementwise", unary(kind, meth, lambda: ([build.points("x", R, Dd)], dict(element_wise=True)), False)))
        out.append(("slice", kind, "R", unary(kind, "slice", lambda: ([build.indices("idx", sym("Rn"))], {}), False)))
        out.append(("product", kind, "R", unary(kind, "product", lambda: ([], {}), False)))
    keys = [k for k in table_keys(prog) if k not in ("log u(x)",)]
    for mk in ("warm", "diag", "diagwarm"):
        # slicing a measure whose caches are populated (the cached arrays must be gathered with the same indices); "diagwarm" was added after
        # the mutation sweep (Sigma gathered from Lambda in GaussianDiagMeasure.slice was reported by no check)
        out.append(("slice", mk, "R/cached" if mk != "diag" else "R", unary(mk, "slice", lambda: ([build.indices("idx", sym("Rn"))], {}), True)))
        out.append(("product", mk, "R/cached" if mk != "diag" else "R", unary(mk, "product", lambda: ([], {}), True)))
    for mk in MEASURE_KINDS:
        for k in keys:
            out.append((f"integrate[{k}]", mk, "R", unary(mk, "integrate", (lambda k=k: ([k], _std_kwargs(k, R, Dd) if k != "1" else {})), True)))
        for meth in ("log_integral", "log_integral_light", "integral", "integral_light", "get_density", "is_normalized"):
            if meth == "is_normalized" and mk not in ("pdf", "diagpdf"):
                continue        # lnZ is None until an integral was requested: jnp.equal(None, .) is outside the contract
            out.append((meth, mk, "R", unary(mk, meth, lambda: ([], {}), True)))
    # ---------------- diagonal measure / density x factor (the product leaves the diagonal family unless the factor is diagonal too)
    for mk in ("diag", "diagpdf"):
        for fk in ("ConjugateFactor", "OneRankFactor", "LinearFactor"):
            for uf in (False, True):
                def rund(mk=mk, fk=fk, uf=uf, op="multiply"):
                    I = build.new_interp()
                    u = make_measure(I, mk, sym("R1") if op == "multiply" else R, Dd, "u")
                    f = make_factor(I, fk, sym("R2") if op == "multiply" else R, Dd, "f")
                    res = I.call_method(u, op, [f], dict(update_full=uf))
                    return dict(I=I, operands={"u": u, "f": f}, result=res, batch=["u", "f"] if op == "multiply" else ["u|f"])
                out.append(("multiply", f"{mk}*{fk}", f"R1xR2/full={int(uf)}", rund))
                out.append(("hadamard", f"{mk}*{fk}", f"R/R/full={int(uf)}", (lambda mk=mk, fk=fk, uf=uf, rund=rund: rund(mk, fk, uf, "hadamard"))))
    # ---------------- measure x factor
    for mk in ("cold", "warm", "pdf"):
        for fk in FACTOR_KINDS:
            for uf in (False, True):
                def run(mk=mk, fk=fk, uf=uf):
                    I = build.new_interp()
                    u = make_measure(I, mk, sym("R1"), Dd, "u")
                    f = make_factor(I, fk, sym("R2"), Dd, "f")
                    res = I.call_method(u, "multiply", [f], dict(update_full=uf))
                    return dict(I=I, operands={"u": u, "f": f}, result=res, batch=["u", "f"])
                out.append(("multiply", f"{mk}*{fk}", f"R1xR2/full={int(uf)}", run))
                for b in ("R/R", "R/1", "1/R"):
                    def runh(mk=mk, fk=fk, uf=uf, b=b):
                        I = build.new_interp()
                        u = make_measure(I, mk, R if b in ("R/R", "R/1") else D(1), Dd, "u")
                        f = make_factor(I, fk, R if b in ("R/R", "1/R") else D(1), Dd, "f")
                        res = I.call_method(u, "hadamard", [f], dict(update_full=uf))
                        return dict(I=I, operands={"u": u, "f": f}, result=res, batch=["u|f"])
                    out.append(("hadamard", f"{mk}*{fk}", f"{b}/full={int(uf)}", runh))
        for fk in ("ConjugateFactor", "OneRankFactor", "LinearFactor", "ConstantFactor"):
            for fb in ("R", "1"):
                def runl(mk=mk, fk=fk, fb=fb):
                    I = build.new_interp()
                    u = make_measure(I, mk, R, Dd, "u")
                    f = make_factor(I, fk, R if fb == "R" else D(1), Dd, "f")
                    res = I.call_method(u, "integrate", ["log u(x)"], dict(factor=f))
                    return dict(I=I, operands={"u": u, "f": f}, result=res, batch=["u|f"])
                out.append(("integrate[log u(x)]", f"{mk}*{fk}", f"R/{fb}", runl))
    # ---------------- densities
    for cls in ("GaussianPDF", "GaussianDiagPDF"):
        diag = cls == "GaussianDiagPDF"

        def mk_p(I, name="u", Rr=R, cls=cls, diag=diag):
            return build.pdf(I, Rr, Dd, name, cls=cls, args="Sigma" if diag else "full", diag=diag)

        def dens(meth, args_fn, mk_p=mk_p):
            def run():
                I = build.new_interp()
                p = mk_p(I)
                args, kw = args_fn(I)
                res = I.call_method(p, meth, args, kw)
                return dict(I=I, operands={"u": p}, result=res, batch=[None, "u"] if meth == "sample" else ["u"])
            return run
        out.append(("entropy", cls, "R", dens("entropy", lambda I: ([], {}))))
        out.append(("get_marginal", cls, "R", dens("get_marginal", lambda I: ([build.indices("dims", sym("Dm"), distinct=True)], {}))))
        out.append(("condition_on", cls, "R", dens("condition_on", lambda I: ([build.indices("dim_b", sym("Db"), distinct=True)], {}))))
        out.append(("condition_on_explicit", cls, "R", dens("condition_on_explicit", lambda I: ([build.indices("dim_b", sym("Db"), distinct=True), build.indices("dim_a", Dd - sym("Db"), distinct=True)], {}))))
        out.append(("get_density_of_linear_sum", cls, "R", dens("get_density_of_linear_sum", lambda I: ([nf.atom("W", [R, sym("Ds"), Dd], owner="coef")], dict(b=nf.atom("bsum", [R, sym("Ds")], owner="coef"))))))
        out.append(("sample", cls, "R", dens("sample", lambda I: ([nf.atom("key", [2], kind="key"), sym("n")], {}))))
        out.append(("slice", cls, "R", dens("slice", lambda I: ([build.indices("idx", sym("Rn"))], {}))))
        out.append(("to_dict", cls, "R", dens("to_dict", lambda I: ([], {}))))
        for b in ("R/R", "R/1", "1/R"):
            def runk(b=b, mk_p=mk_p):
                I = build.new_interp()
                p = mk_p(I, "u", R if b in ("R/R", "R/1") else D(1))
                q = mk_p(I, "q", R if b in ("R/R", "1/R") else D(1))
                return dict(I=I, operands={"u": p, "q": q}, result=I.call_method(p, "kl_divergence", [q]), batch=["u|q"])
            out.append(("kl_divergence", cls, b, runk))
    # ---------------- linear conditionals
    for cls in drivers.COND_CLASSES:
        for ctx in drivers.BATCH_CTX + ["1/1@diagprior"]:
            for meth in ("affine_joint_transformation", "affine_marginal_transformation", "affine_conditional_transformation",
                         "conditional_entropy", "mutual_information"):
                for regime in (drivers.REGIMES if (meth in ("affine_joint_transformation", "conditional_entropy", "mutual_information") and not drivers.is_identity(cls)) else ["Dx<=Dy"]):
                    def runt(cls=cls, ctx=ctx, meth=meth, regime=regime):
                        I, c, px, sizes = drivers.setup_cond(cls, ctx, regime)
                        return dict(I=I, operands={"c": c, "px": px}, result=I.call_method(c, meth, [px]), batch=["c", "px"])
                    out.append((meth, cls, f"{ctx}/{regime}", runt))
        for ctx in ("1", "n"):
            def mkc(I, cls=cls, ctx=ctx):
                Dy = sym("Dy")
                Dx = Dy if drivers.is_identity(cls) else sym("Dx")
                return build.conditional(I, sym("Rc") if ctx == "n" else D(1), Dy, Dx, "c", cls=cls), Dy, Dx
            for meth in ("condition_on_x", "__call__", "get_conditional_mu"):
                def runc(meth=meth, mkc=mkc):
                    I = build.new_interp()
                    c, Dy, Dx = mkc(I)
                    return dict(I=I, operands={"c": c}, result=I.call_method(c, meth, [build.points("x", N, Dx)]), batch=["c", None])
                out.append((meth, cls, f"R={ctx}", runc))

            def runs(mkc=mkc):
                I = build.new_interp()
                c, Dy, Dx = mkc(I)
                return dict(I=I, operands={"c": c}, result=I.call_method(c, "slice", [build.indices("idx", sym("Rn"))]), batch=["c"])
            out.append(("slice", cls, f"R={ctx}", runs))

            def runu(mkc=mkc):
                I = build.new_interp()
                c, Dy, Dx = mkc(I)
                Rc = c.f["Sigma"].shape[0]
                Snew = nf.atom("Sigma_new", [Rc, Dy, Dy], sym=True, owner="c")
                I.call_method(c, "update_Sigma", [Snew])
                return dict(I=I, operands={"c": c}, result=c, batch=["c"], mutator=True)
            out.append(("update_Sigma", cls, f"R={ctx}", runu))
        for ctx in ("R=1", "R=N"):
            def runy(cls=cls, ctx=ctx):
                I = build.new_interp()
                Dy = sym("Dy")
                Dx = Dy if drivers.is_identity(cls) else sym("Dx")
                Rc = N if ctx == "R=N" else D(1)
                c = build.conditional(I, Rc, Dy, Dx, "c", cls=cls)
                y = nf.atom("y", [N, Dy], owner="c" if ctx == "R=N" else "obs")
                return dict(I=I, operands={"c": c}, result=I.call_method(c, "set_y", [y]), batch=["c|obs"])
            out.append(("set_y", cls, ctx, runy))
        # expected log conditional: R=1 conditional, batch on the integrating density
        def runi(cls=cls):
            I = build.new_interp()
            Dy = sym("Dy")
            Dx = Dy if drivers.is_identity(cls) else sym("Dx")
            c = build.conditional(I, D(1), Dy, Dx, "c", cls=cls)
            q = build.pdf(I, R, Dy + Dx, "q")
            return dict(I=I, operands={"c": c, "q": q}, result=I.call_method(c, "integrate_log_conditional", [q]), batch=["q"])
        out.append(("integrate_log_conditional", cls, "1/R", runi))

        def runiy(cls=cls):
            I = build.new_interp()
            Dy = sym("Dy")
            Dx = Dy if drivers.is_identity(cls) else sym("Dx")
            c = build.conditional(I, D(1), Dy, Dx, "c", cls=cls)
            q = build.pdf(I, R, Dx, "q")
            y = nf.atom("y", [R, Dy], owner="q")
            return dict(I=I, operands={"c": c, "q": q}, result=I.call_method(c, "integrate_log_conditional_y", [q], dict(y=y)), batch=["q"])
        out.append(("integrate_log_conditional_y", cls, "1/R", runiy))
    # ---------------- approximate conditionals (R = 1 objects; batch on the integrating density)
    from .approx import make_approx
    for cls in ("LRBFGaussianConditional", "LSEMGaussianConditional", "HeteroscedasticExpConditional", "HeteroscedasticCoshM1Conditional"):
        feature = cls.startswith("L")
        Rp = R if feature else D(1)
        for meth in ("affine_joint_transformation", "affine_marginal_transformation", "affine_conditional_transformation",
                     "get_expected_moments", "get_expected_cross_terms"):
            def runa(cls=cls, meth=meth, Rp=Rp):
                I = build.new_interp()
                c = make_approx(I, cls, "c")
                px = build.pdf(I, Rp, sym("Dx"), "px")
                return dict(I=I, operands={"c": c, "px": px}, result=I.call_method(c, meth, [px]), batch=["px"])
            out.append((meth, cls, "1/R" if feature else "1/1", runa))
        for meth in ("condition_on_x", "get_conditional_mu"):
            def runx(cls=cls, meth=meth):
                I = build.new_interp()
                c = make_approx(I, cls, "c")
                return dict(I=I, operands={"c": c}, result=I.call_method(c, meth, [build.points("x", N, sym("Dx"))]), batch=[None])
            out.append((meth, cls, "R=1", runx))
        if feature:
            def runl(cls=cls):
                I = build.new_interp()
                c = make_approx(I, cls, "c")
                q = build.pdf(I, R, sym("Dy") + sym("Dx"), "q")
                return dict(I=I, operands={"c": c, "q": q}, result=I.call_method(c, "integrate_log_conditional", [q]), batch=["q"])
            out.append(("integrate_log_conditional", cls, "1/R", runl))

            def runly(cls=cls):
                I = build.new_interp()
                c = make_approx(I, cls, "c")
                q = build.pdf(I, R, sym("Dx"), "q")
                y = nf.atom("y", [R, sym("Dy")], owner="q")
                return dict(I=I, operands={"c": c, "q": q}, result=I.call_method(c, "integrate_log_conditional_y", [q], dict(y=y)), batch=["q"])
            out.append(("integrate_log_conditional_y", cls, "1/R", runly))
    return out

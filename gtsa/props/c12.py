"""C12 - batches are independent components: parametricity of every operation in the batch index, documented layouts,
well-formed batches, slice / update field exhaustiveness."""
import ast
from .. import nf, build, model
from ..nf import Val, Undecided
from ..dim import D
from ..build import sym
from ..core import Ob, Refuted
from ..interp import Obj
from .common import funcs_of, make_measure, make_factor, FACTOR_KINDS
from . import drivers, apis

PROP = "C12"


# ------------------------------------------------------------------ parametricity rule
_slot_cache = {}


def owner_slots(h):
    """list of (slot position, owner tag) : which index slots of head h enumerate which object's components."""
    H = nf.ST.head
    if h in _slot_cache:
        return _slot_cache[h]
    info = H.get(h)
    out = []
    if info is None:
        return out
    if info.kind == "atom":
        if isinstance(info.extra, tuple) and info.extra and info.extra[0] == "batch0":
            out = [(0, info.extra[1])]
    elif info.kind in ("InvAtom", "LnDetAtom"):
        inner = h[h.index("(") + 1:-1]
        out = owner_slots(inner)
    elif info.arg is not None:
        slots = list(info.bslots) + list(info.mslots)
        for _, n in info.arg[1]:
            for h2, ix in n.f:
                for pos, o in owner_slots(h2):
                    if pos < len(ix) and ix[pos] in slots:
                        k = slots.index(ix[pos])
                        if (k, o) not in out:
                            out.append((k, o))
                    elif pos < len(ix):
                        # batch index of an owned tensor bound *inside* an opaque argument: summed across components
                        if (-1, o) not in out:
                            out.append((-1, o))
    _slot_cache[h] = out
    return out


def parametric_violations(v, batch, operands, what=""):
    """v: returned array; batch: ordered owner tags of the leading axis (or 'reduce')."""
    if not isinstance(v, Val) or batch == "reduce":
        return []
    nt = nf.normalize(v)
    lead = tuple(v.free())
    # expected variable per owner
    expect = {}
    symbolic = []
    for tag in batch:
        if tag is None:
            symbolic.append(None)
            continue
        owners = tag.split("|")
        sizes = []
        for o in owners:
            ob = operands.get(o)
            sizes.append(_batch_size(ob) if ob is not None else None)
        if any(s is not None and not s.is_one() for s in sizes) or any(s is None for s in sizes):
            symbolic.append(owners)
    # map symbolic owner groups to leading-axis variables in order, skipping data axes
    free = set(v.free())
    bad = []
    pos = 0
    groups = [g for g in symbolic]
    # leading axis variables in order
    lv = list(lead)
    gi = 0
    for g in groups:
        if gi >= len(lv):
            break
        if g is not None:
            for o in g:
                expect[o] = lv[gi]
        gi += 1
    for c, n in nt:
        for h, ix in n.f:
            for spos, o in owner_slots(h):
                if o in ("coef", "obs") and o not in expect:
                    # per-component coefficients / observations ride on the receiver's batch index
                    tgt = None
                    for oo in ("u", "c", "q"):
                        if oo in expect:
                            tgt = expect[oo]
                            break
                    if tgt is None:
                        continue
                    want = tgt
                else:
                    want = expect.get(o)
                if spos == -1:
                    bad.append(f"{what}: components of operand '{o}' are summed inside {h.split('#')[0]}(...) (result depends on the other components)")
                    continue
                if spos >= len(ix):
                    continue
                var = ix[spos]
                if var not in free:
                    # a pure re-indexing  Sel[w, var]  (gather with an index array) stands for component w
                    for h3, jx in n.f:
                        if nf.ST.head[h3].kind == "Sel" and len(jx) == 2 and jx[1] == var and jx[0] in free:
                            var = jx[0]
                            break
                if var not in free:
                    bad.append(f"{what}: component index of {h} (operand '{o}') is summed over / pinned in the result: a component depends on other components")
                elif want is not None and var != want:
                    bad.append(f"{what}: {h} (operand '{o}') is indexed by a different component index than the result component (layout / cross-component leak)")
                elif want is None and var not in lead:
                    bad.append(f"{what}: component index of {h} (operand '{o}') appears on a non-batch axis of the result")
    return sorted(set(bad))[:6]


def _batch_size(o):
    if not isinstance(o, Obj):
        return None
    for k in ("Lambda", "Sigma", "M", "nu", "ln_beta", "v"):
        v = o.f.get(k)
        if isinstance(v, Val) and v.axes:
            return v.shape[0]
    return None


BATCH_FIELDS = ("Lambda", "nu", "ln_beta", "Sigma", "ln_det_Sigma", "ln_det_Lambda", "mu", "lnZ", "M", "b", "v", "g")


def wellformed_violations(o, what=""):
    """all batch-carrying fields of a returned object have the same leading size (one entry per component)."""
    if not isinstance(o, Obj):
        return []
    sizes = {}
    for k in BATCH_FIELDS:
        v = o.f.get(k)
        if isinstance(v, Val) and v.axes:
            sizes[k] = v.shape[0]
    if len({repr(s) for s in sizes.values()}) > 1:
        return [f"{what}: returned {o.cls} is not a well-formed batch: leading sizes " + ", ".join(f"{k}:{s}" for k, s in sorted(sizes.items()))]
    return []


def api_ob(name, cls, ctx, drv):
    def run():
        _slot_cache.clear()
        r = drv()
        I, res, batch, ops = r["I"], r["result"], r["batch"], r["operands"]
        bad = []
        vals = []
        if isinstance(res, Val):
            vals.append(("result", res))
        elif isinstance(res, Obj):
            bad += wellformed_violations(res, name)
            for k, v in res.f.items():
                if isinstance(v, Val) and k in BATCH_FIELDS:
                    vals.append((f"result.{k}", v))
        elif isinstance(res, (tuple, list)):
            for i, v in enumerate(res):
                if isinstance(v, Val):
                    vals.append((f"result[{i}]", v))
        elif isinstance(res, dict):
            for k, v in res.items():
                if isinstance(v, Val):
                    vals.append((f"result[{k!r}]", v))
        for nm, v in vals:
            bad += parametric_violations(v, batch, ops, f"{name} {nm}")
        if bad:
            raise Refuted("; ".join(bad[:4]), None, bad)
        return [], dict(funcs=funcs_of(I), arrays=len(vals))
    return Ob(f"parametric/{name}/{cls}/{ctx}", run,
              "every factor of the result's normal form that carries an operand's component index carries exactly the result's component index in the documented position (no summation over / pinning of components); returned objects are well-formed batches",
              f"{cls}.{name}", group="parametric")


# ------------------------------------------------------------------ slice / update
def slice_classes(prog):
    return sorted(c for c in prog.classes if prog.find_method(c, "slice") is not None and not c.startswith("_"))


def _make_any(I, cls, R):
    Dd = sym("D")
    if cls == "GaussianMeasure/cached":
        return make_measure(I, "warm", R, Dd, "u")
    if cls in FACTOR_KINDS:
        return make_factor(I, cls, R, Dd, "u")
    if cls in ("ConditionalGaussianPDF", "ConditionalGaussianDiagPDF", "ConditionalIdentityGaussianPDF", "ConditionalIdentityDiagGaussianPDF"):
        Dy = sym("Dy")
        Dx = Dy if drivers.is_identity(cls) else sym("Dx")
        return build.conditional(I, R, Dy, Dx, "u", cls=cls)
    from .approx import make_approx
    return make_approx(I, cls, "u")


def slice_ob(prog, cls):
    ctx = cls
    cls = cls.split("/")[0]
    owner, _ = prog.method(cls, "slice")
    anchor = f"{prog.relpath(prog.cls(owner).mod)}::{owner}.slice"

    def run():
        I = build.new_interp()
        approx = cls not in FACTOR_KINDS and not cls.startswith("Conditional")
        R = D(1) if approx else sym("R")
        o = _make_any(I, ctx, R)
        Rn = sym("Rn")
        idx = build.indices("idx", Rn)
        q = I.call_method(o, "slice", [idx])
        bad = []
        tab = prog.field_table(cls)
        # every init field of the receiver's class must be carried by the result (same function), batch fields gathered with idx
        for name, ent in tab.items():
            if not ent["init"]:
                continue
            v = o.f.get(name)
            if v is None:
                continue
            if name not in q.f and not _derived(prog, q, name):
                bad.append(f"slice() of a {cls} returns a {q.cls} without the parameter '{name}' (a different conditional / factor)")
                continue
            if isinstance(v, Val) and ent["ann"].startswith("Float[Array, 'R") and name in q.f:
                ref = nf.gather_axis(v, 0, "idx", Rn)
                d = nf.diff(q.f[name], ref, what=f"slice {name}")
                if d:
                    bad.append(f"field {name} is not taken with `indices` on axis 0: {d[:2]}")
        # derived / cached fields that the result exposes must be the gathered ones as well
        for name in ("Sigma", "Lambda", "ln_det_Sigma", "ln_det_Lambda", "nu", "ln_beta", "mu"):
            v, w = o.f.get(name), q.f.get(name)
            if isinstance(v, Val) and isinstance(w, Val) and v.axes and not v.shape[0].is_one():
                d = nf.diff(w, nf.gather_axis(v, 0, "idx", Rn), what=f"slice {name}")
                if d:
                    bad.append(f"field {name} of the slice differs from the gathered field: {d[:2]}")
        if bad:
            raise Refuted("; ".join(bad[:4]), anchor, bad)
        return [], dict(funcs=funcs_of(I), construct=anchor)
    return Ob(f"slice/{ctx}", run, "slice(idx) returns the same kind of object with every batch-carrying field taken with the same idx on axis 0 (field exhaustiveness against the class's field table)", anchor, group="slice")


def _derived(prog, q, name):
    return False


def update_ob(prog, cls):
    owner, _ = prog.method(cls, "update")
    anchor = f"{prog.relpath(prog.cls(owner).mod)}::{owner}.update"

    def run():
        I = build.new_interp()
        R, Dd, Ru = sym("R"), sym("D"), sym("Ru")
        diag = cls == "GaussianDiagPDF"
        p = build.pdf(I, R, Dd, "u", cls=cls, args="Sigma" if diag else "full", diag=diag)
        d = build.pdf(I, Ru, Dd, "d", cls=cls, args="Sigma" if diag else "full", diag=diag)
        idx = build.indices("idx", Ru)
        before = dict(p.f)
        I.call_method(p, "update", [idx, d])
        bad = []
        from ..intrinsics import _scatter
        for name, old in before.items():
            if not isinstance(old, Val):
                continue
            new = p.f.get(name)
            src = d.f.get(name)
            if new is old:
                bad.append(f"stored field {name} is not updated (stale for the addressed components)")
                continue
            if not isinstance(src, Val):
                bad.append(f"field {name}: source density has no such field")
                continue
            ref = _scatter(I, old, idx, src)
            dd = nf.diff(new, ref, what=f"update {name}")
            if dd:
                bad.append(f"field {name} is not scattered with the same indices from the same-named field: {dd[:2]}")
        if bad:
            raise Refuted("; ".join(bad[:4]), anchor, bad)
        return [], dict(funcs=funcs_of(I), fields=len([1 for v in before.values() if isinstance(v, Val)]))
    return Ob(f"update/{cls}", run, "update(idx, d) scatters every stored array field of the density with the same idx from the same-named field of d", anchor, group="update")


# ------------------------------------------------------------------ API enumeration guard
EXCLUDED = {
    "get_trace": "static helper (trace of each matrix), analysed through its callers",
    "to_dict": "C18", "from_dict": "C18",
    "compute_lnZ": "cache mutator, analysed through log_integral (C02/C04)", "invert_lambda": "cache mutator (C02/C04)",
    "compute_mu": "cache mutator (C04)", "normalize": "mutator (C02)", "__mul__": "alias of multiply (C01)",
    "update": "update obligations", "link_function": "C16", "linear_layer": "C16", "get_conditional_cov": "C16",
    "integrate_Sigma_x": "C16", "get_expected_moments": "C16", "get_expected_cross_terms": "C16", "k_func": "C17 (n/a)",
    "get_lb_log_det": "C17 (n/a)", "get_lb_quadratic_term": "C17 (n/a)", "get_lb_heteroscedastic_term_i": "C17 (n/a)",
    "evaluate_phi": "C16", "update_phi": "C16", "get_M_b": "C15", "set_control_variable": "C15", "condition_on_x_u": "C15",
    "get_mean": "C20", "get_variance": "C20", "get_std": "C20", "integrate_x_pow_2": "C20", "integrate_x_pow_k": "C20",
}


def coverage_ob(prog, table):
    def run():
        covered = {n.split("[")[0] for n, _, _, _ in table}
        missing = []
        for c, ci in prog.classes.items():
            if c.startswith("_") or ci.mod.startswith("utils"):
                continue
            for m, fn in ci.methods.items():
                if m.startswith("_") and m not in ("__call__", "__mul__"):
                    continue
                if prog.is_property(fn):
                    continue
                base = m
                if base in covered or base in EXCLUDED:
                    continue
                if base.startswith("integrate_") and "integrate" in covered:
                    continue
                if c.startswith(("Hetero", "L", "NNControl", "Truncated")):
                    continue     # approximate / experimental classes: C15, C16, C20
                missing.append(f"{c}.{m}")
        if missing:
            raise Undecided("public operations without a parametricity driver: " + ", ".join(sorted(missing)))
        return [], dict(apis=len(covered))
    return Ob("coverage/public-api", run, "every public operation of factor/measure/density/linear-conditional classes has a driver or a recorded exclusion", "gaussian_toolbox/*", group="coverage")


def default_ctor_ob(prog, cls):
    """objects constructed with their optional array arguments omitted are well-formed batches too (the defaults carry the
    component axis; a broadcastable size-1 default evaluates correctly but breaks slice / product)."""
    r = prog.find_method(cls, "__post_init__")
    anchor = f"{prog.relpath(prog.cls(r[0]).mod)}::{r[0]}.__post_init__" if r else f"{cls}.__post_init__"

    def run():
        I = build.new_interp()
        R, Dd = sym("R"), sym("D")
        if cls == "ConjugateFactor":
            o = build.factor(I, R, Dd, "f", nu=False, ln_beta=False)
        elif cls == "OneRankFactor":
            o = build.onerank(I, R, Dd, "f", g=False, nu=False, ln_beta=False)
        elif cls == "LinearFactor":
            o = build.linear_factor(I, R, Dd, "f", ln_beta=False)
        elif cls in ("GaussianMeasure", "GaussianDiagMeasure"):
            kw = dict(Lambda=(build.diag_matrix("Lambda(u)", R, Dd) if "Diag" in cls else nf.atom("Lambda(u)", [R, Dd, Dd], sym=True, owner="u")))
            o = I.construct(cls, kw)
        else:
            Dy = sym("Dy")
            Dx = Dy if drivers.is_identity(cls) else sym("Dx")
            o = build.conditional(I, R, Dy, Dx, "c", cls=cls, args="Sigma", b=False)
        bad = wellformed_violations(o, f"{cls}(defaults)")
        for k in BATCH_FIELDS:
            v = o.f.get(k)
            if isinstance(v, Val) and v.axes and v.shape[0] != R:
                bad.append(f"{cls}(defaults): field {k} has leading size {v.shape[0]}, not the component count R")
        if bad:
            raise Refuted("; ".join(bad[:3]), anchor, bad)
        return [], dict(funcs=funcs_of(I))
    return Ob(f"ctor-default/{cls}", run, "an object constructed with optional array arguments omitted is a well-formed batch: every batch-carrying field has leading size R",
              anchor, group="ctor-default")


def obligations(tier):
    prog = model.load()
    table = apis.api_list(prog)
    obs = [coverage_ob(prog, table)]
    for name, cls, ctx, drv in table:
        obs.append(api_ob(name, cls, ctx, drv))
    for cls in slice_classes(prog) + ["GaussianMeasure/cached"]:
        obs.append(slice_ob(prog, cls))
    for cls in ("GaussianPDF", "GaussianDiagPDF"):
        obs.append(update_ob(prog, cls))
    for cls in ["ConjugateFactor", "OneRankFactor", "LinearFactor", "GaussianMeasure", "GaussianDiagMeasure"] + list(drivers.COND_CLASSES):
        obs.append(default_ctor_ob(prog, cls))
    from .common import endpoint_contiguity_ob
    obs.append(endpoint_contiguity_ob(model.load(), "indexlist"))
    return obs


FLOORS = {"group:parametric": 540, "group:slice": 20, "group:update": 2, "group:coverage": 1, "group:ctor-default": 9, "group:indexlist": 1}
LEVEL = "proof"
EXPLANATION = ("Batch parametricity: every public operation of every factor / measure / density / linear-conditional class is interpreted in its "
               "batch contexts and each returned array's normal form is inspected: every tensor that carries an operand's component index must carry "
               "exactly the result's component index in the documented position, never a summed or pinned one (parametric functions commute with "
               "slicing for every index array). Plus slice()/update() field exhaustiveness and well-formedness of returned batches.")

"""C02 - reported mass equals the integral; everything presented as a density is a normalised Gaussian density."""
import ast
from .. import nf, build, model
from ..nf import Val, Undecided
from ..dim import Dim, D, LOG2PI
from ..build import sym
from ..core import Ob, Refuted
from .common import make_measure, obj_ln, funcs_of, measure_reference, invariant_diffs
from . import drivers

PROP = "C02"
M = "gaussian_toolbox/measure.py"
P = "gaussian_toolbox/pdf.py"


def lnZ_spec(u):
    Lam, nu = u.f["Lambda"], u.f["nu"]
    Sig, ldL = nf.inverse(Lam)
    Dd = Lam.shape[-1]
    return nf.scale(nf.add(nf.add(nf.einsum("rd,rde,re->r", nu, Sig, nu), nf.const(Dd * LOG2PI)), ldL, -1), D(1) / 2)


def mass_ob(mkind, api):
    def run():
        I = build.new_interp()
        R, Dd = sym("R"), sym("D")
        u = make_measure(I, mkind, R, Dd)
        spec = nf.add(lnZ_spec(u), u.f["ln_beta"])
        if api in ("log_integral", "log_integral_light"):
            got = I.call_method(u, api, [])
        elif api in ("integral", "integral_light"):
            got = I.call_method(u, api, [])
            spec = nf.elementwise("Exp", spec)
        elif api == "integrate()":
            got = I.call_method(u, "integrate", [])
            spec = nf.elementwise("Exp", spec)
        elif api == "integrate('1')":
            got = I.call_method(u, "integrate", ["1"])
            spec = nf.elementwise("Exp", spec)
        d = nf.diff(got, spec, what=api)
        inv = invariant_diffs(u, what=f"caches after {api}: ")
        if inv:
            d = d + [("cache", inv)]
        return d, dict(funcs=funcs_of(I))
    return Ob(f"mass/{api}/{mkind}", run, "log-integral == 1/2(nu'Inv(Lambda)nu + D ln 2pi - LnDet(Lambda)) + ln_beta, D = dim(Lambda); integral = exp(.)",
              f"{M}::GaussianMeasure.{api.split('(')[0]}", group="mass")


def linalg_ob(which):
    def run():
        I = build.new_interp(summaries=False)
        R, Dd = sym("R"), sym("D")
        if which == "invert_matrix":
            A = nf.atom("A", [R, Dd, Dd], sym=True)
        else:
            A = build.diag_matrix("A", R, Dd)
        fn = I.prog.functions.get(("utils.linalg", which))
        if fn is None:
            raise model.AnchorError(f"utils/linalg.py::{which} not found")
        from ..interp import FuncRef
        res = I.call(FuncRef("utils.linalg", fn), [A], {})
        if not (isinstance(res, tuple) and len(res) == 2):
            raise Refuted(f"{which} does not return (inverse, log-determinant)", f"gaussian_toolbox/utils/linalg.py::{which}")
        inv_ref, ld_ref = nf.inverse(A)
        d = nf.diff(res[0], inv_ref, what="inverse")
        ld = rewrite_chol_logdet(res[1])
        d += nf.diff(ld, ld_ref, what="log-determinant")
        return d, dict(funcs=funcs_of(I))
    return Ob(f"linalg/{which}", run, "body == (Inv(A), LnDet(A)) under the Cholesky axioms (rule 6)", f"gaussian_toolbox/utils/linalg.py::{which}", group="linalg")


def rewrite_chol_logdet(v):
    """rule 6:  sum_i log ChoFac(A)[..,i,i]  ->  1/2 LnDet(A)."""
    out_terms = []
    for c, n in nf.normalize(v):
        if len(n.f) == 1 and nf.ST.head[n.f[0][0]].kind == "Log":
            h, ix = n.f[0]
            info = nf.ST.head[h]
            arg = info.arg[1]
            if len(arg) == 1 and arg[0][0].is_one() and len(arg[0][1].f) == 1:
                h2, ix2 = arg[0][1].f[0]
                i2 = nf.ST.head[h2]
                if i2.kind == "ChoFac" and len(ix2) >= 2 and ix2[-1] == ix2[-2] and ix2[-1] in info.bslots:
                    # the diagonal index of the Log head must be the summed one
                    pos = info.bslots.index(ix2[-1])
                    dvar = ix[pos]
                    if dvar not in set(v.free()):
                        # A = argument of ChoFac, batch slots in order
                        m = {}
                        for sb, xb in zip(info.bslots, ix):
                            m[sb] = xb
                        bmap = {}
                        for k, sb in enumerate(i2.bslots):
                            bmap[sb] = m.get(ix2[k], ix2[k])
                        a1, a2 = nf.fresh(nf.size(dvar), "a"), nf.fresh(nf.size(dvar), "a")
                        bmap[i2.mslots[0]] = a1
                        bmap[i2.mslots[1]] = a2
                        baxes = [(bmap[sb],) for sb in i2.bslots]
                        A = Val(baxes + [(a1,), (a2,)], [(cc, nn.rename(bmap)) for cc, nn in i2.arg[1]])
                        ld = nf.logdet(A)
                        ld = nf.rename_onto(ld, Val(baxes, [])) if False else ld
                        # ld has fresh axes in the order of baxes; map back onto v's variables by name
                        mm = {}
                        for ax_new, ax_old in zip(ld.axes, baxes):
                            for x, y in zip(ax_new, ax_old):
                                mm[x] = y
                        for cc, nn in ld.terms:
                            out_terms.append((c * cc / 2, nn.rename(mm)))
                        continue
        out_terms.append((c, n))
    return Val(v.axes, out_terms)


def normalize_ob(mkind):
    def run():
        I = build.new_interp()
        R, Dd, N = sym("R"), sym("D"), sym("N")
        u = make_measure(I, mkind, R, Dd)
        x = build.points("x", N, Dd)
        before = obj_ln(u, x)
        logint = nf.add(lnZ_spec(u), u.f["ln_beta"])
        dens = I.call_method(u, "get_density", [])
        d = []
        if not I.prog.is_subclass(dens.cls, "GaussianPDF"):
            raise Refuted(f"get_density returns {dens.cls}", f"{M}::GaussianMeasure.get_density")
        got = I.call_method(dens, "evaluate_ln", [x])
        ref = nf.add(before, nf.expand_dims(logint, ["k", None]), -1)
        d += nf.diff(got, ref, what="get_density().evaluate_ln")
        li = I.call_method(dens, "log_integral", [])
        d += [("log_integral(density)!=0", x_) for x_ in nf.diff(li, nf.scale(li, 0))]
        # normalize() in place
        u2 = make_measure(I, mkind, R, Dd, "w")
        spec = nf.neg(lnZ_spec(u2))
        I.call_method(u2, "normalize", [])
        d += nf.diff(u2.f["ln_beta"], spec, what="normalize(): ln_beta == -lnZ")
        return d, dict(funcs=funcs_of(I))
    return Ob(f"normalize/{mkind}", run, "get_density()(x) == u(x) / integral(u); normalize sets ln_beta = -lnZ; density integrates to one",
              f"{M}::GaussianMeasure.get_density", group="normalize")


def density_diffs(I, p, x, what="density"):
    """a density object evaluates to the Normal log-density of (p.mu, p.Sigma) with dim = last axis of Sigma, and integrates to 1."""
    S, mu = p.f["Sigma"], p.f["mu"]
    Lam_ref, lds_ref = nf.inverse(S)
    Dd = S.shape[-1]
    got = I.call_method(p, "evaluate_ln", [x])
    ref = build.normal_logpdf(x, mu, Lam_ref, lds_ref, Dd)
    d = nf.diff(got, ref, what=f"{what}.evaluate_ln vs Normal log-density")
    li = I.call_method(p, "log_integral", [])
    d += [("log_integral!=0", q) for q in nf.diff(li, nf.scale(li, 0))]
    return d


def ctor_ob(cls, args):
    def run():
        I = build.new_interp()
        R, Dd, N = sym("R"), sym("D"), sym("N")
        p = build.pdf(I, R, Dd, "p", cls=cls, args=args, diag=(cls == "GaussianDiagPDF"))
        x = build.points("x", N, Dd)
        d = density_diffs(I, p, x, f"{cls}({args})")
        inv = invariant_diffs(p, what="constructor ")
        if inv:
            d += [("invariant", inv)]
        return d, dict(funcs=funcs_of(I))
    return Ob(f"ctor/{cls}/{args}", run, "constructor argument combination yields ln N(x; mu, Sigma) with the dimension of Sigma, integral one",
              f"{P}::{cls}.__post_init__", group="ctor")


# ---------------------------------------------------------------------------------- construction sites

DENSITY_CLASSES = ("GaussianPDF", "GaussianDiagPDF")


def construction_sites(prog):
    """who-may-construct scan: every call in the library that constructs a GaussianPDF subclass."""
    sites = []
    for mod, tree in prog.modules.items():
        for fn in ast.walk(tree):
            if not isinstance(fn, ast.FunctionDef):
                continue
            for n in ast.walk(fn):
                if isinstance(n, ast.Call):
                    r = prog.resolve_static(mod, n.func)
                    if r is None and isinstance(n.func, ast.Attribute) and isinstance(n.func.value, ast.Name) and n.func.value.id in ("pdf",):
                        r = ("class", n.func.attr) if n.func.attr in prog.classes else None
                    if r is None and isinstance(n.func, ast.Call) and isinstance(n.func.func, ast.Name) and n.func.func.id == "type" \
                            and {k.arg for k in n.keywords} & {"Sigma", "mu", "Lambda"}:
                        # type(operand)(Sigma=..., mu=...): the class follows an operand (may be a density class)
                        r = ("class", "GaussianPDF")
                    if r and r[0] == "class" and r[1] in DENSITY_CLASSES:
                        kws = tuple(sorted(k.arg for k in n.keywords if k.arg))
                        sites.append((mod, prog.qualname_at(mod, n.lineno), fn.name, kws, n.lineno))
    return sites


# sites that pass more than (Sigma, mu): each needs a driver that proves the triple coherent (induction step)
TRIPLE_DRIVERS = {
    ("pdf", "GaussianPDF", "slice"): "slice",
    ("pdf", "GaussianDiagPDF", "slice"): "slice",
    ("measure", "GaussianMeasure", "get_density"): "get_density",
    ("conditional", "ConditionalGaussianPDF", "condition_on_x"): "condition_on_x",
    ("conditional", "ConditionalIdentityGaussianPDF", "condition_on_x"): "condition_on_x",
    ("conditional", "ConditionalIdentityDiagGaussianPDF", "condition_on_x"): "condition_on_x",
    ("conditional", "ConditionalGaussianPDF", "affine_joint_transformation"): "joint",
    ("conditional", "ConditionalIdentityGaussianPDF", "affine_joint_transformation"): "joint",
    ("approximate_conditional", "HeteroscedasticConditional", "condition_on_x"): "hetero",
}


def enclosing_class(prog, mod, lineno):
    for n in prog.modules[mod].body:
        if isinstance(n, ast.ClassDef) and n.lineno <= lineno <= n.end_lineno:
            return n.name
    return None


def site_obs(prog):
    obs = []
    sites = construction_sites(prog)
    if len(sites) < 8:
        # a guard against a scan that stopped resolving constructor calls (today: 21 sites); structural refactorings that merge
        # duplicated construction code legitimately lower the count
        raise model.AnchorError(f"who-may-construct scan found only {len(sites)} density construction sites (floor 8)")
    for mod, qn, fname, kws, line in sites:
        cls = enclosing_class(prog, mod, line)
        key = (mod, cls, fname)
        anchor = f"{prog.relpath(mod)}::{cls}.{fname}"
        if set(kws) <= {"Sigma", "mu"}:
            obs.append(Ob(f"site/{mod}.{cls}.{fname}/derived", (lambda: []), "site passes only (Sigma, mu): precision, log-determinant and normaliser are derived by the constructor (ctor obligations)", anchor, group="site"))
            continue
        drv = TRIPLE_DRIVERS.get(key)
        if drv is None:
            def unknown(anchor=anchor, kws=kws):
                raise Undecided(f"new density construction site {anchor} passing {kws} has no coherence driver")
            obs.append(Ob(f"site/{mod}.{cls}.{fname}/uncovered", unknown, "every site passing a (Sigma, Lambda, ln_det_Sigma) triple has a coherence proof", anchor, group="site"))
        elif drv == "UNCLAIMED":
            def und(anchor=anchor):
                raise Undecided("Woodbury inverse of the heteroscedastic covariance: A_k' Lambda A_k is not reducible by the NF theory (rank-dependent)")
            obs.append(Ob(f"site/{mod}.{cls}.{fname}/triple", und, "coherent triple", anchor, claimed=False, group="site"))
        else:
            for ob in triple_driver(prog, drv, cls, anchor, f"site/{mod}.{cls}.{fname}"):
                obs.append(ob)
    return obs


def coherent_diffs(p, what=""):
    """(Sigma, Lambda, ln_det_Sigma) of a constructed density are coherent: Sigma*Lambda -> delta, ln_det_Sigma == LnDet(Sigma)."""
    S, L, lds = p.f["Sigma"], p.f["Lambda"], p.f["ln_det_Sigma"]
    k = len(S.axes)
    prod = nf.einsum("rab,rbc->rac", S, L, what="Sigma*Lambda")
    eye = nf.expand_dims(nf.eye(S.shape[-1]), [None])
    d = [("Sigma*Lambda!=I", q) for q in nf.diff(prod, nf.add(nf.scale(prod, 0), eye), what=what + "Sigma*Lambda")]
    d += [("ln_det_Sigma!=LnDet(Sigma)", q) for q in nf.diff(lds, nf.logdet(S), what=what + "ln_det_Sigma")]
    return d


def triple_driver(prog, drv, cls, anchor, prefix):
    obs = []
    if drv == "slice":
        def run(cls=cls):
            I = build.new_interp()
            R, Dd, N = sym("R"), sym("D"), sym("N")
            p = build.pdf(I, R, Dd, "p", cls=cls, args="Sigma" if cls == "GaussianDiagPDF" else "full", diag=(cls == "GaussianDiagPDF"))
            idx = build.indices("idx", sym("Rn"))
            q = I.call_method(p, "slice", [idx])
            x = build.points("x", N, Dd)
            d = coherent_diffs(q, "slice: ") + density_diffs(I, q, x, "slice")
            return d, dict(funcs=funcs_of(I))
        obs.append(Ob(prefix + "/triple", run, "sliced density carries a coherent (Sigma, Lambda, ln_det_Sigma) and is the Normal density of its (mu, Sigma)", anchor, group="site"))
    elif drv == "get_density":
        for mk in ("cold", "warm", "diag"):
            def run(mk=mk):
                I = build.new_interp()
                R, Dd, N = sym("R"), sym("D"), sym("N")
                u = make_measure(I, mk, R, Dd)
                q = I.call_method(u, "get_density", [])
                x = build.points("x", N, Dd)
                d = coherent_diffs(q, "get_density: ") + density_diffs(I, q, x, "get_density")
                return d, dict(funcs=funcs_of(I))
            obs.append(Ob(prefix + f"/triple/{mk}", run, "get_density passes a coherent triple", anchor, group="site"))
    elif drv == "condition_on_x":
        for ctx in ("1", "n"):
            def run(cls=cls, ctx=ctx):
                I = build.new_interp()
                Rc = sym("Rc") if ctx == "n" else D(1)
                Dy = sym("Dy")
                Dx = Dy if drivers.is_identity(cls) else sym("Dx")
                c = build.conditional(I, Rc, Dy, Dx, "c", cls=cls)
                xs = build.points("xs", sym("N"), Dx)
                q = I.call_method(c, "condition_on_x", [xs])
                y = build.points("y", sym("Ny"), Dy)
                d = coherent_diffs(q, "condition_on_x: ") + density_diffs(I, q, y, "condition_on_x")
                return d, dict(funcs=funcs_of(I))
            obs.append(Ob(prefix + f"/triple/R={ctx}", run, "condition_on_x passes a coherent triple (tile of an invariant conditional)", anchor, group="site"))
    elif drv == "hetero":
        for hc in ("HeteroscedasticExpConditional", "HeteroscedasticCoshM1Conditional"):
            def run(hc=hc):
                from .approx import make_approx
                I = build.new_interp()
                c = make_approx(I, hc, "c")
                q = I.call_method(c, "condition_on_x", [build.points("xs", sym("N"), sym("Dx"))])
                return coherent_diffs(q, "heteroscedastic condition_on_x: "), dict(funcs=funcs_of(I))
            obs.append(Ob(prefix + f"/triple/{hc}", run, "x-dependent covariance AA' + A_k D(x) A_k' is passed together with its inverse and log-determinant (generic Da >= Dy)", anchor, group="site"))
    elif drv == "joint":
        from . import c07
        for ctx in drivers.BATCH_CTX:
            for regime in (["Dx<=Dy"] if drivers.is_identity(cls) else drivers.REGIMES):
                obs.append(c07.joint_ob(prog, cls, ctx, regime, prop_prefix=prefix + "/triple"))
    return obs


def obligations(tier):
    prog = model.load()
    obs = []
    for mk in ("cold", "warm", "diag", "pdf"):
        for api in ("log_integral", "log_integral_light", "integral", "integral_light", "integrate()", "integrate('1')"):
            obs.append(mass_ob(mk, api))
    obs.append(linalg_ob("invert_matrix"))
    obs.append(linalg_ob("invert_diagonal"))
    from .common import logdomain_ob
    obs.append(logdomain_ob(prog, "linalg"))
    from .common import no_narrowing_ob
    obs.append(no_narrowing_ob(prog, "linalg"))
    for mk in ("cold", "warm", "diag"):
        obs.append(normalize_ob(mk))
    for args in ("Sigma", "Sigma+Lambda", "full"):
        obs.append(ctor_ob("GaussianPDF", args))
    obs.append(ctor_ob("GaussianDiagPDF", "Sigma"))
    obs.append(ctor_ob("GaussianDiagPDF", "Sigma+Lambda"))      # the slogdet branch of the diagonal constructor (mutation sweep)
    obs.extend(site_obs(prog))
    # the condition_on_x construction site outside the known finding F10 (square A)
    from .c17 import coherence_square_ob, CLASSES as HETERO
    for cls in HETERO:
        obs.append(coherence_square_ob(cls))
    # "... also after the object has been multiplied, sliced or queried": the mass / normaliser caches of the results of these
    # operations are the closed-form values of their natural parameters (shared with C04's invariant obligations)
    from . import apis, c04
    for name, cls, ctx, drv in apis.api_list(prog):
        if name in ("multiply", "hadamard", "slice", "product", "get_density") and not cls.startswith("Conditional"):
            ob = c04.api_ob(prog, name, cls, ctx, c04._mark_setup(drv))
            ob.key = "after/" + ob.key
            ob.group = "after"
            obs.append(ob)
    return obs


FLOORS = {"group:mass": 24, "group:linalg": 4, "group:normalize": 3, "group:ctor": 5, "group:site": 8, "group:after": 230, "group:coherent-square": 4}
LEVEL = "proof"
EXPLANATION = ("Closed-form mass (compute_lnZ / log_integral* / integral* / integrate('1')), utils/linalg.py against its summary, normalisation, "
               "every density constructor argument combination, and a who-may-construct scan: every library site constructing a GaussianPDF "
               "either passes only (Sigma, mu) or is proved to pass a coherent (Sigma, Lambda, ln_det_Sigma) triple given invariant operands "
               "(induction step over operation histories).")

"""construction of approximate conditionals (abstract)."""
from .. import nf, build
from ..dim import D
from ..build import sym


def make_approx(I, cls, name="c"):
    Dy, Dx, Dk = sym("Dy"), sym("Dx"), sym("Dk")
    if cls == "LRBFGaussianConditional":
        return I.construct(cls, dict(M=nf.atom(f"M({name})", [1, Dy, Dk + Dx]), b=nf.atom(f"b({name})", [1, Dy]),
                                     mu=nf.atom(f"centres({name})", [Dk, Dx]), length_scale=nf.atom(f"ls({name})", [Dk, Dx]),
                                     Sigma=nf.atom(f"Sigma({name})", [1, Dy, Dy], sym=True)))
    if cls == "LSEMGaussianConditional":
        return I.construct(cls, dict(M=nf.atom(f"M({name})", [1, Dy, Dk + Dx]), b=nf.atom(f"b({name})", [1, Dy]),
                                     W=nf.atom(f"W({name})", [Dk, Dx + 1]), Sigma=nf.atom(f"Sigma({name})", [1, Dy, Dy], sym=True)))
    if cls.startswith("Heteroscedastic"):
        Da = sym("Da")
        return I.construct(cls, dict(M=nf.atom(f"M({name})", [1, Dy, Dx]), b=nf.atom(f"b({name})", [1, Dy]),
                                     A=nf.atom(f"A({name})", [1, Dy, Da]), W=nf.atom(f"W({name})", [Dk, Dx + 1])))
    if cls == "LConjugateFactorMGaussianConditional":
        return build.conditional(I, D(1), Dy, Dx, name, cls=cls)
    if cls == "NNControlGaussianConditional":
        from .nncontrol import make_nn
        return make_nn(I, name)[0]
    raise nf.Undecided(f"no abstract constructor for {cls}")

"""Shared reference constructions for the property modules."""
from .. import nf, build
from ..nf import Val
from ..dim import Dim, D, LOG2PI
from ..build import sym


def funcs_of(I):
    return sorted({f"{m}:{q}" for m, q in I.calls})


def measure_reference(u, kind):
    """definitional (mu, Sigma, mass) of a measure object from its *primary* parameters only."""
    if kind in ("pdf", "diagpdf"):
        return u.f["mu"], u.f["Sigma"], None           # a density: stored mean / covariance, mass one
    Lam, nu, lb = u.f["Lambda"], u.f["nu"], u.f["ln_beta"]
    if kind == "warm":
        Sig = Val(u.f["Sigma"].axes, u.f["Sigma"].terms)
        ldS = u.f["ln_det_Sigma"]
    else:
        Sig, ldL = nf.inverse(Lam)
        ldS = nf.neg(ldL)
    mu = nf.einsum("rde,re->rd", Sig, nu)
    Dd = Lam.shape[-1]
    lnZ = nf.scale(nf.add(nf.add(nf.einsum("rd,rde,re->r", nu, Sig, nu), nf.const(Dd * LOG2PI)), ldS), D(1) / 2)
    mass = nf.elementwise("Exp", nf.add(lnZ, lb))
    return mu, Sig, mass


def make_measure(I, kind, R, Dd, name="u"):
    if kind == "cold":
        return build.measure(I, R, Dd, name)
    if kind == "warm":
        return build.measure(I, R, Dd, name, warm=True)
    if kind == "diag":
        return build.measure(I, R, Dd, name, cls="GaussianDiagMeasure", diag=True)
    if kind == "diagwarm":
        # history context: a diagonal measure whose caches were populated by its own integration preparation
        o = build.measure(I, R, Dd, name, cls="GaussianDiagMeasure", diag=True)
        I.call_method(o, "_prepare_integration", [])
        return o
    if kind == "pdf":
        return build.pdf(I, R, Dd, name)
    if kind == "diagpdf":
        return build.pdf(I, R, Dd, name, cls="GaussianDiagPDF", args="Sigma", diag=True)
    raise ValueError(kind)


def times_mass(mass, v):
    if mass is None:
        return v
    k = len(v.axes)
    return nf.mul(nf.expand_dims(mass, ["k"] + [None] * (k - 1)), v)


FACTOR_KINDS = ["ConjugateFactor", "LowRankFactor", "OneRankFactor", "LinearFactor", "ConstantFactor",
                "GaussianMeasure", "GaussianDiagMeasure", "GaussianPDF", "GaussianDiagPDF"]


def make_factor(I, kind, R, Dd, name="f"):
    if kind in ("ConjugateFactor", "LowRankFactor"):
        return build.factor(I, R, Dd, name, cls=kind)
    if kind == "OneRankFactor":
        return build.onerank(I, R, Dd, name)
    if kind == "LinearFactor":
        return build.linear_factor(I, R, Dd, name)
    if kind == "ConstantFactor":
        return build.constant_factor(I, R, Dd, name)
    if kind == "GaussianMeasure":
        return build.measure(I, R, Dd, name)
    if kind == "GaussianDiagMeasure":
        return build.measure(I, R, Dd, name, cls="GaussianDiagMeasure", diag=True)
    if kind == "GaussianPDF":
        return build.pdf(I, R, Dd, name)
    if kind == "GaussianDiagPDF":
        return build.pdf(I, R, Dd, name, cls="GaussianDiagPDF", args="Sigma", diag=True)
    raise ValueError(kind)


def obj_ln(o, x):
    """reference evaluation  ln f_r(x_n)  from the natural parameters stored in the object."""
    return build.factor_ln(x, o.f["Lambda"], o.f["nu"], o.f["ln_beta"])


CACHE_FIELDS = ("Sigma", "ln_det_Sigma", "ln_det_Lambda", "lnZ", "mu")


def ctor_certificate(o):
    """the object is exactly what the (separately proved, C02) density constructor derives from (Sigma, mu): precision and log-det
    are the value-numbered inverse / log-determinant of its covariance, nu = Lambda mu, lnZ / ln_beta are the constructor's formulas.
    Then every invariant follows from the constructor obligation by substitution of this covariance for the generic one."""
    f = o.f
    need = ("Sigma", "Lambda", "ln_det_Sigma", "mu", "nu", "lnZ", "ln_beta")
    if any(not isinstance(f.get(k), Val) for k in need):
        return False
    L, ld = nf.inverse(f["Sigma"])
    if nf.diff(f["Lambda"], L) or nf.diff(f["ln_det_Sigma"], ld):
        return False
    if nf.diff(f["nu"], nf.einsum("rab,ra->rb", f["Lambda"], f["mu"])):
        return False
    Dd = f["Sigma"].shape[-1]
    lnZ = nf.scale(nf.add(nf.add(nf.einsum("ra,rab,rb->r", f["nu"], f["Sigma"], f["nu"]), nf.const(Dd * LOG2PI)), f["ln_det_Sigma"]), D(1) / 2)
    if nf.diff(f["lnZ"], lnZ) or nf.diff(f["ln_beta"], nf.neg(f["lnZ"])):
        return False
    return True


def diagonal_class_diffs(o, what=""):
    """class invariant of the *Diag* classes: the matrices they store are diagonal (their cheap inverse / log-determinant
    `invert_diagonal` is only correct under that precondition)"""
    if "Diag" not in o.cls:
        return []
    out = []
    for fld in ("Lambda", "Sigma"):
        v = o.f.get(fld)
        if not isinstance(v, Val) or len(v.axes) < 2:
            continue
        A, B = v.axes[-2], v.axes[-1]
        nt = nf.normalize(v)
        def diagonal_term(n):
            a, b = A[0], B[0]
            if any(g[0] == "delta" and set(g[1]) == {a, b} for g in n.f):
                return True
            # a diagonal matrix gathered with the same index list on both axes, d[idx_a] [idx_a == idx_b]: diagonal for the distinct
            # coordinate lists the API documents
            sa = [(h, ix) for h, ix in n.f if nf.ST.head[h].kind == "Sel" and len(ix) == 2 and ix[0] == a]
            sb = [(h, ix) for h, ix in n.f if nf.ST.head[h].kind == "Sel" and len(ix) == 2 and ix[0] == b]
            if any(h1 == h2 and i1[1] == i2[1] for h1, i1 in sa for h2, i2 in sb):
                return True
            # the inverse of such a matrix
            for h, ix in n.f:
                info = nf.ST.head[h]
                if info.kind == "Inv" and len(ix) >= 2 and set(ix[-2:]) == {a, b}:
                    m1, m2 = info.mslots
                    def inner(nn):
                        if any(g[0] == "delta" and set(g[1]) == {m1, m2} for g in nn.f):
                            return True
                        s1 = [(hh, jx) for hh, jx in nn.f if nf.ST.head[hh].kind == "Sel" and len(jx) == 2 and jx[0] == m1]
                        s2 = [(hh, jx) for hh, jx in nn.f if nf.ST.head[hh].kind == "Sel" and len(jx) == 2 and jx[0] == m2]
                        return any(h1 == h2 and i1[1] == i2[1] for h1, i1 in s1 for h2, i2 in s2)
                    if all(inner(nn) for _, nn in info.arg[1]):
                        return True
            return False
        if nt and A and B and nf._as_diagonal(nt, A, B) is None and not all(diagonal_term(n) for _, n in nt):
            offd = [(c, n) for c, n in nt if not diagonal_term(n)]
            out.append((f"{o.cls}.{fld} is diagonal", [("only_impl", nf.show_coef(c), nf.show_net(n, v)) for c, n in offd[:3]]))
    return out


def invariant_diffs(o, fields=None, what="", lndet_oracle=None):
    dg = diagonal_class_diffs(o, what)
    if dg:
        return dg
    if fields is None and ctor_certificate(o):
        return []
    return _invariant_diffs(o, fields, what, lndet_oracle)


def _invariant_diffs(o, fields=None, what="", lndet_oracle=None):
    """representation invariant of a factor/measure/density object: every non-None derived field agrees with the
    value defined by the natural parameters (Lambda, nu).  Returns a list of (field, diffs)."""
    out = []
    f = o.f
    Lam, nu = f.get("Lambda"), f.get("nu")
    if Lam is None:
        return out
    want = fields or CACHE_FIELDS
    Sig_ref, ldL = nf.inverse(Lam)
    if f.get("Sigma") is not None:
        d = inverse_pair_diffs(f["Sigma"], Lam, what)
        if d:
            if "Sigma" in want:
                out.append(("Sigma*Lambda=I", d[:4]))
        else:
            Sig_ref = f["Sigma"]          # established: the stored covariance IS the inverse of the precision
    ldL_alts = [ldL]
    if f.get("Sigma") is not None:
        ldL_alts.append(nf.neg(nf.logdet(f["Sigma"])))
    lem = lndet_rank_one(Lam)
    if lem is not None:
        ldL_alts.append(lem)
    if lndet_oracle is not None:
        ldL_alts.append(nf.neg(lndet_oracle))
    if "ln_det_Sigma" in want and f.get("ln_det_Sigma") is not None:
        ds = [nf.diff(f["ln_det_Sigma"], nf.neg(a), what=f"{what}ln_det_Sigma") for a in ldL_alts]
        if all(ds):
            out.append(("ln_det_Sigma=-LnDet(Lambda)", ds[0][:4]))
    if "ln_det_Lambda" in want and f.get("ln_det_Lambda") is not None:
        ds = [nf.diff(f["ln_det_Lambda"], a, what=f"{what}ln_det_Lambda") for a in ldL_alts]
        if all(ds):
            out.append(("ln_det_Lambda=LnDet(Lambda)", ds[0][:4]))
    if "mu" in want and f.get("mu") is not None and nu is not None:
        d = nf.diff(f["mu"], nf.einsum("rab,rb->ra", Sig_ref, nu), what=f"{what}mu")
        if d:
            out.append(("mu=Sigma nu", d[:4]))
    if "lnZ" in want and f.get("lnZ") is not None and nu is not None:
        Dd = Lam.shape[-1]
        ds = []
        for a in ldL_alts:
            ref = nf.scale(nf.add(nf.add(nf.einsum("rd,rde,re->r", nu, Sig_ref, nu), nf.const(Dd * LOG2PI)), a, -1), D(1) / 2)
            ds.append(nf.diff(f["lnZ"], ref, what=f"{what}lnZ"))
        if all(ds):
            out.append(("lnZ=Gaussian log-normaliser", ds[0][:4]))
    return out


def lndet_rank_one(Lam):
    """matrix determinant lemma (axiom, rule 8):  LnDet(X + g v v') = LnDet(X) + log(1 + g v' Inv(X) v)
    for Lam whose normal form is  X[.,a,b] + (scalar factors) * v[.,a] v[.,b]  with X a single invariant atom."""
    nt = nf.normalize(Lam)
    if len(nt) != 2 or len(Lam.axes) < 2 or len(Lam.axes[-1]) != 1 or len(Lam.axes[-2]) != 1:
        return None
    a, b = Lam.axes[-2][0], Lam.axes[-1][0]
    base = [t for t in nt if len(t[1].f) == 1 and t[0].is_one() and nf.ST.head[t[1].f[0][0]].sym]
    if not base:
        # X diagonal:  d[.,a] delta[a,b]
        base = [t for t in nt if any(g[0] == "delta" and set(g[1]) == {a, b} for g in t[1].f)]
    rank = [t for t in nt if t not in base]
    if len(base) != 1 or len(rank) != 1:
        return None
    c, n = rank[0]
    va = [(h, ix) for h, ix in n.f if a in ix]
    vb = [(h, ix) for h, ix in n.f if b in ix]
    if len(va) != 1 or len(vb) != 1 or va[0][0] != vb[0][0] or va[0][1][:-1] != vb[0][1][:-1]:
        return None
    X = Val(Lam.axes, [base[0]])
    Xinv, ldX = nf.inverse(X)
    gv = Val(Lam.axes[:-1], [(c, nf.Net([g for g in n.f if g != vb[0]]))])          # g * v[.,a]
    v2 = Val(Lam.axes[:-2] + [Lam.axes[-1]], [(D(1), nf.Net([vb[0]]))])              # v[.,b]
    k = len(Lam.axes) - 2
    bl = "pqrstu"[:k]
    quad = nf.einsum(f"{bl}x,{bl}xy,{bl}y->{bl}", gv, Xinv, v2)
    return nf.add(ldX, nf.elementwise("Log", nf.add(nf.const(1), quad)))


def inverse_pair_diffs(S, L, what=""):
    """Sigma * Lambda == I, decided by (i) multiplication in normal form (rules 3, 5, block identity), (ii) value numbers
    Sigma == Inv(Lambda) or Lambda == Inv(Sigma), (iii) the rational extension (rule 8) for Sherman-Morrison updates."""
    prod = nf.einsum("rab,rbc->rac", S, L, what="Sigma*Lambda")
    eye = nf.partition_identity(prod)
    if eye is None:
        eye = nf.eye(L.shape[-1])
    target = nf.add(nf.scale(prod, 0), nf.expand_dims(eye, [None]))
    d = nf.diff(prod, target, what=f"{what}Sigma*Lambda")
    if not d:
        return []
    if not nf.diff(S, nf.inverse(L)[0], what=f"{what}Sigma"):
        return []
    if not nf.diff(L, nf.inverse(S)[0], what=f"{what}Lambda"):
        return []
    if nf.zero_mod_recip(nf.add(prod, target, -1)):
        return []
    return d


def operand_write_violations(I, epoch, operands):
    """writes to operand objects since `epoch`, other than populating an empty cache field."""
    bad = []
    ids = {o.oid: o for o in operands}
    for w in I.writes[epoch:]:
        oid, cls, field, site, old, new = w
        if oid in ids:
            if field in CACHE_FIELDS and old is None:
                continue
            bad.append(f"write to operand field {cls}.{field} at {site[0]}:{site[2]} in {site[1]}")
    return bad


# ---------------------------------------------------------------- log-domain rule (numeric range of log-determinants)
_PROD_CALLS = ("prod", "cumprod", "det", "nanprod")
LD_SYNTH = '''
def bad(A):
    d = A.diagonal(axis1=1, axis2=2)
    p = jnp.prod(d, axis=1)
    return jnp.log(p)
def good(A):
    d = A.diagonal(axis1=1, axis2=2)
    return jnp.sum(jnp.log(d), axis=1)
def bad2(m):
    return jnp.log(m.integral())
'''


def _is_call_to(n, names):
    import ast
    return isinstance(n, ast.Call) and ((isinstance(n.func, ast.Attribute) and n.func.attr in names) or (isinstance(n.func, ast.Name) and n.func.id in names))


def _is_array_product(n):
    """a prod / det call over array data (a product of static sizes such as prod(x.shape) is harmless)"""
    import ast
    if not _is_call_to(n, _PROD_CALLS):
        return False
    if not n.args:
        return True
    a = n.args[0]
    if any(isinstance(m, ast.Attribute) and m.attr in ("shape", "ndim", "size") for m in ast.walk(a)):
        return False
    if isinstance(a, (ast.Tuple, ast.List)) and all(isinstance(e, ast.Constant) for e in a.elts):
        return False
    return True


def _exp_returning(prog):
    """names of library functions whose every return value is exp(...) (integral = exp(log_integral), evaluate = exp(evaluate_ln) ...)"""
    import ast
    names = set()
    for mod, tree in prog.modules.items():
        for fn in ast.walk(tree):
            if isinstance(fn, ast.FunctionDef):
                rets = [r for r in ast.walk(fn) if isinstance(r, ast.Return) and r.value is not None]
                if rets and all(_is_call_to(r.value, ("exp",)) for r in rets):
                    names.add(fn.name)
    return names


def _logdomain_violations(fn, relpath, qual, exp_fns=()):
    """log(...) of a product / determinant over a whole dimension (directly, or through a local name assigned from one);
    log(exp(.)) - directly, through a local name, or through a library function that returns exp(.) - which is the identity only while |.| < 708"""
    import ast
    tainted = {}
    etaint = {}
    is_exp = lambda m: _is_call_to(m, ("exp",) + tuple(exp_fns))
    for n in ast.walk(fn):
        if isinstance(n, ast.Assign) and len(n.targets) == 1 and isinstance(n.targets[0], ast.Name) and is_exp(n.value):
            etaint[n.targets[0].id] = n.lineno
    for n in ast.walk(fn):
        if isinstance(n, ast.Assign) and len(n.targets) == 1 and isinstance(n.targets[0], ast.Name):
            if any(_is_array_product(m) for m in ast.walk(n.value)):
                tainted[n.targets[0].id] = n.lineno
    out, sites = [], 0
    for n in ast.walk(fn):
        if not _is_call_to(n, ("log", "log2", "log10", "log1p")) or not n.args:
            continue
        sites += 1
        arg = n.args[0]
        hit = next((m for m in ast.walk(arg) if _is_array_product(m)), None)
        name = next((m.id for m in ast.walk(arg) if isinstance(m, ast.Name) and m.id in tainted), None)
        if not _is_call_to(n, ("log1p",)) and (is_exp(arg) or (isinstance(arg, ast.Name) and arg.id in etaint)):      # log1p(exp(z)) is softplus, not the identity
            out.append(f"{relpath}:{n.lineno} in {qual(n.lineno)}: `{ast.unparse(n)[:100]}` takes the logarithm of an exponential: exp(z) leaves the float64 range for "
                       "|z| > 708 (log-integrals / log-densities of that size are ordinary), so the result is +-inf where z is finite; keep the value in the log domain")
            continue
        if hit is not None or name is not None:
            what = ast.unparse(hit)[:80] if hit is not None else f"{name} (assigned from a product at line {tainted[name]})"
            out.append(f"{relpath}:{n.lineno} in {qual(n.lineno)}: `{ast.unparse(n)[:100]}` takes the logarithm of the product `{what}`: the product of D entries "
                       "leaves the float64 range (|ln det| > 708) although the log-determinant is representable; accumulate `sum(log(.))` / use slogdet")
    return out, sites


def logdomain_ob(prog, group):
    """log-determinants (and every other log of a D-fold product) are accumulated in the log domain"""
    import ast
    from ..core import Ob, Refuted
    from ..nf import Undecided

    def run():
        t = ast.parse(LD_SYNTH)
        v, _ = _logdomain_violations(t.body[0], "synthetic", lambda l: "bad")
        w, _ = _logdomain_violations(t.body[1], "synthetic", lambda l: "good")
        if len(v) != 1 or w:
            raise Undecided("log-domain rule: synthetic positive / negative example mismatch")
        x, _ = _logdomain_violations(t.body[2], "synthetic", lambda l: "bad2", ("integral",))
        if len(x) != 1:
            raise Undecided("log-domain rule: synthetic log(exp) example mismatch")
        bad, sites = [], 0
        exp_fns = _exp_returning(prog)
        for mod, tree in prog.modules.items():
            for fn in ast.walk(tree):
                if isinstance(fn, (ast.FunctionDef, ast.Lambda)):
                    b, k = _logdomain_violations(fn, prog.relpath(mod), lambda l, mod=mod: prog.qualname_at(mod, l), exp_fns)
                    if isinstance(fn, ast.FunctionDef):
                        sites += k
                    bad += b
        bad = sorted(set(bad))
        if sites < 20:
            raise Undecided(f"only {sites} logarithm call sites found in the library (floor 20)")
        if bad:
            raise Refuted("; ".join(bad[:2]), bad[0].split(":")[0] + "::" + bad[0].split(" in ")[1].split(":")[0], bad)
        return [], dict(sites=sites)
    return Ob("logdomain/no-log-of-product", run,
              "no logarithm is taken of a product / determinant over a whole dimension, nor of an exponential (log-determinants and log-integrals stay in the log domain, finite for every D and every evidence)",
              "gaussian_toolbox/utils/linalg.py::invert_diagonal", group=group)


# ---------------------------------------------------------------- float64 rule (no narrowing of floating-point values)
_NARROW = ("float32", "float16", "bfloat16", "half", "single", "float8_e4m3fn", "float8_e5m2")
DT_SYNTH = '''
def bad(S):
    return jnp.linalg.cholesky(S.astype(jnp.float32))
def good(S):
    return jnp.linalg.cholesky(S.astype(S.dtype))
'''


def _narrowing_sites(tree, relpath, qual):
    import ast
    out = []
    for n in ast.walk(tree):
        name = None
        if isinstance(n, ast.Attribute) and n.attr in _NARROW:
            name = ast.unparse(n)
        elif isinstance(n, ast.Name) and n.id in _NARROW:
            name = n.id
        elif isinstance(n, ast.Constant) and isinstance(n.value, str) and n.value in _NARROW:
            # only as a dtype argument / astype operand, not in docstrings
            name = None
        if isinstance(n, ast.Call):
            for a in list(n.args) + [k.value for k in n.keywords]:
                if isinstance(a, ast.Constant) and isinstance(a.value, str) and a.value in _NARROW:
                    out.append(f"{relpath}:{n.lineno} in {qual(n.lineno)}: `{ast.unparse(n)[:100]}` narrows to {a.value!r}")
        if isinstance(n, ast.Call):
            # an existing value cast to the dtype of ANOTHER operand: an integer / bool / float32 operand silently truncates a float64 value
            fname = n.func.attr if isinstance(n.func, ast.Attribute) else (n.func.id if isinstance(n.func, ast.Name) else None)
            val = dt = None
            if fname == "astype" and isinstance(n.func, ast.Attribute):
                val = n.func.value
                dt = n.args[0] if n.args else next((k.value for k in n.keywords if k.arg == "dtype"), None)
            elif fname in ("asarray", "array", "asanyarray") and n.args:
                val = n.args[0]
                dt = next((k.value for k in n.keywords if k.arg == "dtype"), n.args[1] if len(n.args) > 1 else None)
            if val is not None and isinstance(dt, ast.Attribute) and dt.attr == "dtype" and ast.unparse(dt.value) != ast.unparse(val) \
                    and not isinstance(val, (ast.Constant, ast.List, ast.Tuple)):
                out.append(f"{relpath}:{n.lineno} in {qual(n.lineno)}: `{ast.unparse(n)[:100]}` casts `{ast.unparse(val)[:40]}` to the dtype of another operand "
                           f"(`{ast.unparse(dt)}`): when that operand is an integer / bool / float32 array the float64 value is silently truncated")
        if name is not None:
            out.append(f"{relpath}:{n.lineno} in {qual(n.lineno)}: `{name}` - values are narrowed below float64 "
                       "(the contracts hold to 1e-8 relative in float64; a float32 round trip loses 7 digits)")
    return out


def no_narrowing_ob(prog, group):
    import ast
    from ..core import Ob, Refuted
    from ..nf import Undecided

    def run():
        t = ast.parse(DT_SYNTH)
        if len(_narrowing_sites(t.body[0], "synthetic", lambda l: "bad")) != 1 or _narrowing_sites(t.body[1], "synthetic", lambda l: "good"):
            raise Undecided("float64 rule: synthetic positive / negative example mismatch")
        bad = []
        nmods = 0
        for mod, tree in prog.modules.items():
            nmods += 1
            bad += _narrowing_sites(tree, prog.relpath(mod), lambda l, mod=mod: prog.qualname_at(mod, l))
            # values computed with jax at IMPORT time (module- / class-level constants) have the default dtype of that moment: float32
            # unless jax_enable_x64 was switched on before the package was imported (the test-suite, like most users, enables it after)
            consts = [(n.targets[0].id if isinstance(n, ast.Assign) else n.target.id, n.value, n.lineno) for n in tree.body
                      if (isinstance(n, ast.Assign) and len(n.targets) == 1 and isinstance(n.targets[0], ast.Name))
                      or (isinstance(n, ast.AnnAssign) and isinstance(n.target, ast.Name) and n.value is not None)]
            for c in ast.walk(tree):
                if isinstance(c, ast.ClassDef):
                    consts += [(f"{c.name}.{b.targets[0].id}", b.value, b.lineno) for b in c.body
                               if isinstance(b, ast.Assign) and len(b.targets) == 1 and isinstance(b.targets[0], ast.Name)]
            for name, val, line in consts:
                for m in ast.walk(val):
                    if isinstance(m, ast.Call):
                        r = prog.resolve_static(mod, m.func)
                        int_only = all(isinstance(k, (ast.List, ast.Tuple, ast.UnaryOp)) or (isinstance(k, ast.Constant) and isinstance(k.value, (int, bool)) )
                                       for a in m.args for k in ast.walk(a) if not isinstance(k, (ast.Load, ast.USub, ast.UAdd)))
                        if r and r[0] == "ext" and r[1].startswith(("jax.numpy.", "jax.scipy.", "jax.lax.", "jax.random.")) and not r[1].endswith(("float64", "int32", "int64")) \
                                and not (int_only and r[1].rsplit(".", 1)[1] in ("arange", "array", "asarray", "zeros", "ones") and not m.keywords):
                            bad.append(f"{prog.relpath(mod)}:{line} in <import time>: `{name} = {ast.unparse(val)[:60]}` is computed by {r[1]} when the package is "
                                       "imported - with the default dtype of that moment (float32 unless x64 was enabled before the import)")
                            break
        if nmods < 8:
            raise Undecided(f"only {nmods} modules scanned")
        bad = sorted(set(bad))
        if bad:
            raise Refuted("; ".join(bad[:2]), bad[0].split(":")[0] + "::" + bad[0].split(" in ")[1].split(":")[0], bad)
        return [], dict(modules=nmods)
    return Ob("dtype/no-narrowing", run, "no floating-point value is cast below float64 anywhere in the library (astype / dtype= / jnp.float32 ...)",
              "gaussian_toolbox/*", group=group)


# ---------------------------------------------------------------- hidden-state rule (results must not depend on call history)
HS_SYNTH = '''
_CACHE = {}
def bad_default(x, acc=[]):
    acc.append(x)
    return acc
def bad_global(x):
    global _COUNT
    _COUNT = x
    return x
@functools.lru_cache(maxsize=None)
def bad_memo(D):
    return jnp.eye(D)
@functools.lru_cache(maxsize=None)
def good_memo(k, i):
    return math.comb(k, i)
def good_default(x, dims=[0]):
    return x[dims[0]]
def bad_module_dict(x):
    memo = _CACHE
    memo[id(x)] = x
    return _CACHE[id(x)]
def good(x, scale=1.0, names=("a", "b"), opt=None):
    local = {}
    local["k"] = x
    return local
def bad_inplace(self, y, b):
    y -= b
    return y
def good_inplace(self, y, b, n: int = 0):
    n += 1
    y = jnp.asarray(y)
    y -= b
    z = y - b
    z += 1
    return z
'''
_MEMO = ("lru_cache", "cache", "cached_property", "memoize")


_MUTATORS = ("append", "extend", "insert", "update", "setdefault", "pop", "popitem", "clear", "add", "remove", "discard", "__setitem__")


def _is_container_literal(v):
    import ast
    return isinstance(v, (ast.Dict, ast.List, ast.Set, ast.ListComp, ast.DictComp, ast.SetComp)) or \
        (isinstance(v, ast.Call) and isinstance(v.func, ast.Name) and v.func.id in ("dict", "list", "set", "defaultdict", "OrderedDict"))


def _hidden_state_sites(tree, relpath, qual, module_names, array_call=lambda c: True):
    """constructs through which a result can depend on earlier calls: mutable default arguments, `global` rebinding, memoisation
    decorators, and mutation (subscript / slice stores, mutating method calls) of module-level or class-level containers - directly,
    through `self.<name>` / `cls.<name>`, or through a local alias.  Read-only tables (name -> method dispatch dictionaries) are fine."""
    import ast
    out = []
    class_names = set()
    for n in ast.walk(tree):
        if isinstance(n, ast.ClassDef):
            for b in n.body:
                tg = b.targets[0] if isinstance(b, ast.Assign) and len(b.targets) == 1 else (b.target if isinstance(b, ast.AnnAssign) and b.value is not None else None)
                val = b.value if isinstance(b, (ast.Assign, ast.AnnAssign)) else None
                if isinstance(tg, ast.Name) and val is not None and _is_container_literal(val):
                    class_names.add(tg.id)

    def shared(e, aliases):
        """does expression e denote a module- / class-level container (or a local alias of one)?"""
        if isinstance(e, ast.Name):
            return e.id if (e.id in module_names or e.id in aliases) else None
        if isinstance(e, ast.Attribute) and e.attr in class_names and isinstance(e.value, (ast.Name, ast.Call)):
            return ast.unparse(e)
        return None
    for fn in ast.walk(tree):
        if isinstance(fn, (ast.FunctionDef, ast.Lambda)):
            a = fn.args
            pos = a.posonlyargs + a.args
            pairs = list(zip(pos[len(pos) - len(a.defaults):], a.defaults)) + [(k, d) for k, d in zip(a.kwonlyargs, a.kw_defaults) if d is not None]
            for prm, d in pairs:
                if not _is_container_literal(d):
                    continue
                # shared between calls only matters when the object is mutated, or escapes (returned / stored on an object) so that a caller can mutate it
                nm, hit = prm.arg, None
                for n in ast.walk(fn):
                    if isinstance(n, (ast.Assign, ast.AugAssign)):
                        for t in (n.targets if isinstance(n, ast.Assign) else [n.target]):
                            if isinstance(t, ast.Subscript) and isinstance(t.value, ast.Name) and t.value.id == nm:
                                hit = "is written"
                            if isinstance(n, ast.AugAssign) and isinstance(t, ast.Name) and t.id == nm:
                                hit = "is updated in place"
                            if isinstance(t, ast.Attribute) and isinstance(n, ast.Assign) and isinstance(n.value, ast.Name) and n.value.id == nm:
                                hit = "is stored on an object"
                    elif isinstance(n, ast.Call) and isinstance(n.func, ast.Attribute) and n.func.attr in _MUTATORS and isinstance(n.func.value, ast.Name) and n.func.value.id == nm:
                        hit = "is mutated"
                    elif isinstance(n, ast.Return) and isinstance(n.value, ast.Name) and n.value.id == nm:
                        hit = "is returned"
                if hit:
                    out.append(f"{relpath}:{d.lineno} in {qual(d.lineno)}: mutable default argument `{nm}={ast.unparse(d)}` {hit}: the one object is shared between calls")
        if not isinstance(fn, ast.FunctionDef):
            continue
        # in-place operators on an argument: `y -= b` / `y[i] = v` rebinds nothing for a NumPy array - the caller's data are overwritten
        # (jax arrays are immutable, so the same line is harmless for them: the library accepts both)
        prms = {x.arg: x for x in fn.args.posonlyargs + fn.args.args + fn.args.kwonlyargs if x.arg not in ("self", "cls")}
        for n in sorted((m for m in ast.walk(fn) if isinstance(m, (ast.Assign, ast.AugAssign))), key=lambda m: (m.lineno, m.col_offset)):
            for t in (n.targets if isinstance(n, ast.Assign) else [n.target]):
                base = t.value if isinstance(t, ast.Subscript) else t
                if not (isinstance(base, ast.Name) and base.id in prms):
                    continue
                if isinstance(n, ast.Assign) and isinstance(t, ast.Name):
                    prms.pop(base.id)       # rebound to a new object: later in-place operators act on the copy
                    continue
                ann = prms[base.id].annotation
                if ann is not None and ast.unparse(ann) in ("int", "float", "bool", "str", "complex"):
                    continue
                out.append(f"{relpath}:{n.lineno} in {qual(n.lineno)}: `{ast.unparse(n)[:50]}` updates the argument `{base.id}` in place - a NumPy array passed by the "
                           "caller is overwritten (operands must be left unchanged; a second call with the same array sees different data)")
        for dec in fn.decorator_list:
            name = ast.unparse(dec.func if isinstance(dec, ast.Call) else dec).split(".")[-1]
            args0 = [x.arg for x in fn.args.posonlyargs + fn.args.args][:1]
            pure_python = args0 not in (["self"], ["cls"]) and not any(isinstance(c, ast.Call) and array_call(c) for c in ast.walk(fn))
            if name in _MEMO and not pure_python:
                out.append(f"{relpath}:{dec.lineno} in {qual(fn.lineno)}: `@{ast.unparse(dec)[:60]}` memoises results across calls (objects are mutable: "
                           "normalize / update / update_Sigma change them; arrays are compared by identity)")
        aliases = set()
        for n in ast.walk(fn):
            if isinstance(n, ast.Assign) and len(n.targets) == 1 and isinstance(n.targets[0], ast.Name) and shared(n.value, set()):
                aliases.add(n.targets[0].id)
        for n in ast.walk(fn):
            if isinstance(n, ast.Global):
                out.append(f"{relpath}:{n.lineno} in {qual(n.lineno)}: `global {', '.join(n.names)}` - module state written by a function")
            elif isinstance(n, (ast.Assign, ast.AugAssign, ast.Delete)):
                targets = n.targets if isinstance(n, (ast.Assign, ast.Delete)) else [n.target]
                for t in targets:
                    if isinstance(t, ast.Subscript):
                        nm = shared(t.value, aliases)
                        if nm:
                            out.append(f"{relpath}:{n.lineno} in {qual(n.lineno)}: store into the module- / class-level container `{nm}` (state shared by all "
                                       "instances and calls: a later result can depend on an earlier call)")
            elif isinstance(n, ast.Call) and isinstance(n.func, ast.Attribute) and n.func.attr in _MUTATORS:
                nm = shared(n.func.value, aliases)
                if nm:
                    out.append(f"{relpath}:{n.lineno} in {qual(n.lineno)}: `{nm}.{n.func.attr}(..)` mutates a module- / class-level container")
    return out


def hidden_state_ob(prog, group):
    import ast
    from ..core import Ob, Refuted
    from ..nf import Undecided

    def module_containers(tree):
        out = set()
        for n in tree.body:
            if isinstance(n, ast.Assign) and _is_container_literal(n.value):
                out |= {t.id for t in n.targets if isinstance(t, ast.Name)}
            elif isinstance(n, ast.AnnAssign) and n.value is not None and _is_container_literal(n.value) and isinstance(n.target, ast.Name):
                out.add(n.target.id)
        return out

    def run():
        t = ast.parse(HS_SYNTH)
        names = module_containers(t)
        got = _hidden_state_sites(t, "synthetic", lambda l: next((f.name for f in t.body if isinstance(f, ast.FunctionDef) and f.lineno <= l <= f.end_lineno), ""), names,
                                  lambda c: ast.unparse(c.func).startswith("jnp."))
        if len(got) != 5 or any("good" in g for g in got):
            raise Undecided(f"hidden-state rule: synthetic examples give {len(got)} sites (expected 5)")
        bad, nfun = [], 0
        for mod, tree in prog.modules.items():
            nfun += sum(1 for n in ast.walk(tree) if isinstance(n, ast.FunctionDef))
            def array_call(c, mod=mod):
                # anything but a resolved non-jax external (math.comb, len ...) or builtin may produce arrays / touch objects
                r = prog.resolve_static(mod, c.func)
                if r and r[0] == "ext" and not r[1].startswith(("jax", "numpy", "scipy")):
                    return False
                if isinstance(c.func, ast.Name) and c.func.id in ("len", "range", "tuple", "int", "float", "str", "sorted", "min", "max", "abs", "sum", "zip", "enumerate"):
                    return False
                return True
            bad += _hidden_state_sites(tree, prog.relpath(mod), lambda l, mod=mod: prog.qualname_at(mod, l), module_containers(tree), array_call)
        if nfun < 100:
            raise Undecided(f"only {nfun} functions scanned")
        bad = sorted(set(bad))
        if bad:
            raise Refuted("; ".join(bad[:2]), bad[0].split(":")[0] + "::" + bad[0].split(" in ")[1].split(":")[0], bad)
        return [], dict(functions=nfun)
    return Ob("purity/no-hidden-state", run,
              "no construct through which a result can depend on earlier calls: mutable default arguments that are mutated or escape, global rebinding, memoisation of "
              "methods / array-valued functions, "
              "stores into module-level containers (instance caches are covered by the write rule of the API-table obligations)",
              "gaussian_toolbox/*", group=group)


# ---------------------------------------------------------------- index lists: a contiguity test on the end points does not make a list sorted
EP_SYNTH = '''
def bad_endpoints(self, dims):
    if dims[-1] - dims[0] == len(dims) - 1:
        lo, hi = int(dims[0]), int(dims[-1]) + 1
        return self.mu[:, lo:hi]
    return self.mu[:, dims]
def bad_minmax(self, indices):
    indices = jnp.asarray(indices)
    static = not isinstance(indices, jax.core.Tracer)
    if static and indices.size > 0:
        lo, hi = int(jnp.min(indices)), int(jnp.max(indices))
        if hi - lo + 1 == indices.size:
            return self.nu[lo:hi + 1]
    return jnp.take(self.nu, indices, axis=0)
def good_single(self, dims):
    if len(dims) == 1:
        return self.mu[:, dims[0]:dims[0] + 1]
    return self.mu[:, dims]
def good_sorted(self, dims):
    if dims[-1] - dims[0] == len(dims) - 1 and bool(jnp.all(jnp.diff(dims) == 1)):
        return self.mu[:, int(dims[0]):int(dims[-1]) + 1]
    return self.mu[:, dims]
def good_plain(self, dims, n):
    if n > 2:
        return self.mu[:, :n]
    return self.mu[:, dims]
'''


def _endpoint_sites(fn, where):
    """An `if` whose test looks at an index-list argument only through its first / last element, min / max and length, and whose body
    replaces the gather by a basic slice with bounds taken from those: first, last, min, max and length are the same for [0,1,2,3] and
    [0,2,1,3] (and for [2,2,4] and [2,3,4]), so for lists of three or more entries the slice is not the requested selection."""
    import ast
    out = []
    parents = {}
    for n in ast.walk(fn):
        for c in ast.iter_child_nodes(n):
            parents[c] = n
    params = [a.arg for a in fn.args.posonlyargs + fn.args.args + fn.args.kwonlyargs if a.arg not in ("self", "cls")]
    for P in params:
        aliases, summ, elem = {P}, set(), set()

        def form(nm):
            """how is this occurrence of a whole-list name used?  'elem' (first/last/min/max), 'len', 'neutral' (isinstance) or None (anything else)"""
            p = parents.get(nm)
            if isinstance(p, ast.Subscript) and p.value is nm:
                ix = p.slice
                if isinstance(ix, ast.UnaryOp) and isinstance(ix.op, ast.USub):
                    ix = ix.operand
                if isinstance(ix, ast.Constant) and isinstance(ix.value, int):
                    return "elem"
                return None
            if isinstance(p, ast.Attribute) and p.value is nm:
                if p.attr in ("size", "shape"):
                    return "len"
                pp = parents.get(p)
                if p.attr in ("min", "max") and isinstance(pp, ast.Call) and pp.func is p and not pp.args:
                    return "elem"
                return None
            if isinstance(p, ast.Call) and nm in p.args:
                f = ast.unparse(p.func).split(".")[-1]
                if f in ("min", "max", "amin", "amax") and len(p.args) == 1:
                    return "elem"
                if f == "len":
                    return "len"
                if f == "isinstance":
                    return "neutral"
            return None

        def kind(e):
            """'whole' | 'summary' (depends on the list only through end points / extremes / length) | 'other' | 'none' (does not depend on it)"""
            if isinstance(e, ast.Name) and e.id in aliases:
                return "whole", False
            if isinstance(e, ast.Call) and ast.unparse(e.func).split(".")[-1] in ("asarray", "array", "astype", "int32", "int64") \
                    and len(e.args) >= 1 and isinstance(e.args[0], ast.Name) and e.args[0].id in aliases:
                return "whole", False
            dep, el = False, False
            for nm in ast.walk(e):
                if isinstance(nm, ast.Name) and isinstance(nm.ctx, ast.Load):
                    if nm.id in aliases:
                        f = form(nm)
                        if f is None:
                            return "other", False
                        dep = True
                        el = el or f == "elem"
                    elif nm.id in summ:
                        dep = True
                        el = el or nm.id in elem
            return ("summary" if dep else "none"), el
        stmts = sorted((n for n in ast.walk(fn) if isinstance(n, ast.Assign) and len(n.targets) == 1), key=lambda n: (n.lineno, n.col_offset))
        for n in stmts:
            t, v = n.targets[0], n.value
            pairs = list(zip(t.elts, v.elts)) if isinstance(t, ast.Tuple) and isinstance(v, ast.Tuple) and len(t.elts) == len(v.elts) else [(t, v)]
            for tt, vv in pairs:
                if isinstance(tt, ast.Name):
                    k, el = kind(vv)
                    if k == "whole":
                        aliases.add(tt.id)
                    elif k == "summary":
                        summ.add(tt.id)
                        if el:
                            elem.add(tt.id)
        for n in ast.walk(fn):
            if not isinstance(n, ast.If):
                continue
            k, el = kind(n.test)
            if k != "summary" or not el:
                continue
            # a test that pins the length to one or two entries makes the end points the whole list
            small = False
            for c in ast.walk(n.test):
                if isinstance(c, ast.Compare) and len(c.ops) == 1 and isinstance(c.ops[0], (ast.Eq, ast.LtE, ast.Lt)):
                    sides = [c.left, c.comparators[0]]
                    if any(isinstance(x, ast.Constant) and x.value in (1, 2, 3) for x in sides) and any(kind(x) == ("summary", False) for x in sides):
                        small = True
            if small:
                continue
            for st in n.body:
                for sub in ast.walk(st):
                    if isinstance(sub, ast.Subscript):
                        for sl in ast.walk(sub.slice):
                            if isinstance(sl, ast.Slice):
                                bounds = [b for b in (sl.lower, sl.upper) if b is not None]
                                if any(kind(b) == ("summary", True) for b in bounds):
                                    out.append(f"{where}:{sub.lineno}: `{ast.unparse(sub)[:60]}` replaces the selection by the index list `{P}` with a basic slice under the "
                                               f"test `{ast.unparse(n.test)[:80]}`, which sees `{P}` only through its first / last / smallest / largest entry and its "
                                               "length - an unsorted or repeating list with the same end points passes the test and gets the wrong components")
    return sorted(set(out))


def endpoint_contiguity_ob(prog, group):
    import ast
    from ..core import Ob, Refuted
    from ..nf import Undecided

    def run():
        t = ast.parse(EP_SYNTH)
        got = {f.name: _endpoint_sites(f, "synthetic") for f in t.body}
        if not all(got[k] for k in ("bad_endpoints", "bad_minmax")) or any(got[k] for k in ("good_single", "good_sorted", "good_plain")):
            raise Undecided(f"index-list rule: synthetic examples misclassified { {k: len(v) for k, v in got.items()} }")
        bad, nfun = [], 0
        for mod, tree in prog.modules.items():
            for fn in ast.walk(tree):
                if isinstance(fn, ast.FunctionDef):
                    nfun += 1
                    bad += _endpoint_sites(fn, f"{prog.relpath(mod)}::{prog.qualname_at(mod, fn.lineno)}")
        if nfun < 100:
            raise Undecided(f"only {nfun} functions scanned")
        if bad:
            raise Refuted(bad[0], bad[0].split(":")[0] + "::" + bad[0].split("::")[1].split(":")[0], bad)
        return [], dict(functions=nfun)
    return Ob("indexlist/endpoint-contiguity", run,
              "no gather by an index-list argument is replaced by a basic slice under a test that sees the list only through its end points, extremes and length "
              "(index lists may come in any order and, for slice(), with repeats)", "gaussian_toolbox/*", group=group)

"""Shared reference constructions for the property modules."""
from .. import nf, build
from ..nf import Val
from ..dim import Dim, D, LOG2PI
from ..build import sym


def funcs_of(I):
    return sorted({f"{m}:{q}" for m, q in I.calls})


def measure_reference(u, kind):
    """definitional (mu, Sigma, mass) of a measure object from its *primary* parameters only."""
    if kind in ("pdf", "diagpdf"):
        return u.f["mu"], u.f["Sigma"], None           # a density: stored mean / covariance, mass one
    Lam, nu, lb = u.f["Lambda"], u.f["nu"], u.f["ln_beta"]
    if kind == "warm":
        Sig = Val(u.f["Sigma"].axes, u.f["Sigma"].terms)
        ldS = u.f["ln_det_Sigma"]
    else:
        Sig, ldL = nf.inverse(Lam)
        ldS = nf.neg(ldL)
    mu = nf.einsum("rde,re->rd", Sig, nu)
    Dd = Lam.shape[-1]
    lnZ = nf.scale(nf.add(nf.add(nf.einsum("rd,rde,re->r", nu, Sig, nu), nf.const(Dd * LOG2PI)), ldS), D(1) / 2)
    mass = nf.elementwise("Exp", nf.add(lnZ, lb))
    return mu, Sig, mass


def make_measure(I, kind, R, Dd, name="u"):
    if kind == "cold":
        return build.measure(I, R, Dd, name)
    if kind == "warm":
        return build.measure(I, R, Dd, name, warm=True)
    if kind == "diag":
        return build.measure(I, R, Dd, name, cls="GaussianDiagMeasure", diag=True)
    if kind == "pdf":
        return build.pdf(I, R, Dd, name)
    if kind == "diagpdf":
        return build.pdf(I, R, Dd, name, cls="GaussianDiagPDF", args="Sigma", diag=True)
    raise ValueError(kind)


def times_mass(mass, v):
    if mass is None:
        return v
    k = len(v.axes)
    return nf.mul(nf.expand_dims(mass, ["k"] + [None] * (k - 1)), v)

"""Shared reference constructions for the property modules."""
from .. import nf, build
from ..nf import Val
from ..dim import Dim, D, LOG2PI
from ..build import sym


def funcs_of(I):
    return sorted({f"{m}:{q}" for m, q in I.calls})


def measure_reference(u, kind):
    """definitional (mu, Sigma, mass) of a measure object from its *primary* parameters only."""
    if kind in ("pdf", "diagpdf"):
        return u.f["mu"], u.f["Sigma"], None           # a density: stored mean / covariance, mass one
    Lam, nu, lb = u.f["Lambda"], u.f["nu"], u.f["ln_beta"]
    if kind == "warm":
        Sig = Val(u.f["Sigma"].axes, u.f["Sigma"].terms)
        ldS = u.f["ln_det_Sigma"]
    else:
        Sig, ldL = nf.inverse(Lam)
        ldS = nf.neg(ldL)
    mu = nf.einsum("rde,re->rd", Sig, nu)
    Dd = Lam.shape[-1]
    lnZ = nf.scale(nf.add(nf.add(nf.einsum("rd,rde,re->r", nu, Sig, nu), nf.const(Dd * LOG2PI)), ldS), D(1) / 2)
    mass = nf.elementwise("Exp", nf.add(lnZ, lb))
    return mu, Sig, mass


def make_measure(I, kind, R, Dd, name="u"):
    if kind == "cold":
        return build.measure(I, R, Dd, name)
    if kind == "warm":
        return build.measure(I, R, Dd, name, warm=True)
    if kind == "diag":
        return build.measure(I, R, Dd, name, cls="GaussianDiagMeasure", diag=True)
    if kind == "pdf":
        return build.pdf(I, R, Dd, name)
    if kind == "diagpdf":
        return build.pdf(I, R, Dd, name, cls="GaussianDiagPDF", args="Sigma", diag=True)
    raise ValueError(kind)


def times_mass(mass, v):
    if mass is None:
        return v
    k = len(v.axes)
    return nf.mul(nf.expand_dims(mass, ["k"] + [None] * (k - 1)), v)


FACTOR_KINDS = ["ConjugateFactor", "LowRankFactor", "OneRankFactor", "LinearFactor", "ConstantFactor",
                "GaussianMeasure", "GaussianDiagMeasure", "GaussianPDF", "GaussianDiagPDF"]


def make_factor(I, kind, R, Dd, name="f"):
    if kind in ("ConjugateFactor", "LowRankFactor"):
        return build.factor(I, R, Dd, name, cls=kind)
    if kind == "OneRankFactor":
        return build.onerank(I, R, Dd, name)
    if kind == "LinearFactor":
        return build.linear_factor(I, R, Dd, name)
    if kind == "ConstantFactor":
        return build.constant_factor(I, R, Dd, name)
    if kind == "GaussianMeasure":
        return build.measure(I, R, Dd, name)
    if kind == "GaussianDiagMeasure":
        return build.measure(I, R, Dd, name, cls="GaussianDiagMeasure", diag=True)
    if kind == "GaussianPDF":
        return build.pdf(I, R, Dd, name)
    if kind == "GaussianDiagPDF":
        return build.pdf(I, R, Dd, name, cls="GaussianDiagPDF", args="Sigma", diag=True)
    raise ValueError(kind)


def obj_ln(o, x):
    """reference evaluation  ln f_r(x_n)  from the natural parameters stored in the object."""
    return build.factor_ln(x, o.f["Lambda"], o.f["nu"], o.f["ln_beta"])


CACHE_FIELDS = ("Sigma", "ln_det_Sigma", "ln_det_Lambda", "lnZ", "mu")


def invariant_diffs(o, fields=None, what=""):
    """representation invariant of a factor/measure/density object: every non-None derived field agrees with the
    value defined by the natural parameters (Lambda, nu).  Returns a list of (field, diffs)."""
    out = []
    f = o.f
    Lam, nu = f.get("Lambda"), f.get("nu")
    if Lam is None:
        return out
    want = fields or CACHE_FIELDS
    Sig_ref, ldL = nf.inverse(Lam)
    if "Sigma" in want and f.get("Sigma") is not None:
        # Sigma * Lambda -> delta  (rule 3) ; equivalently Sigma == Inv(Lambda) by value number
        prod = nf.einsum("rab,rbc->rac", f["Sigma"], Lam, what="Sigma*Lambda")
        Dd = Lam.shape[-1]
        eye = nf.expand_dims(nf.eye(Dd), [None])
        d = nf.diff(prod, nf.add(nf.scale(prod, 0), eye), what=f"{what}Sigma*Lambda")
        if d:
            d2 = nf.diff(f["Sigma"], Sig_ref, what=f"{what}Sigma")
            if d2:
                out.append(("Sigma*Lambda=I", d[:4]))
    if "ln_det_Sigma" in want and f.get("ln_det_Sigma") is not None:
        d = nf.diff(f["ln_det_Sigma"], nf.neg(ldL), what=f"{what}ln_det_Sigma")
        if d:
            out.append(("ln_det_Sigma=-LnDet(Lambda)", d[:4]))
    if "ln_det_Lambda" in want and f.get("ln_det_Lambda") is not None:
        d = nf.diff(f["ln_det_Lambda"], ldL, what=f"{what}ln_det_Lambda")
        if d:
            out.append(("ln_det_Lambda=LnDet(Lambda)", d[:4]))
    if "mu" in want and f.get("mu") is not None and nu is not None:
        d = nf.diff(f["mu"], nf.einsum("rab,rb->ra", Sig_ref, nu), what=f"{what}mu")
        if d:
            out.append(("mu=Sigma nu", d[:4]))
    if "lnZ" in want and f.get("lnZ") is not None and nu is not None:
        Dd = Lam.shape[-1]
        ref = nf.scale(nf.add(nf.add(nf.einsum("rd,rde,re->r", nu, Sig_ref, nu), nf.const(Dd * LOG2PI)), ldL, -1), D(1) / 2)
        d = nf.diff(f["lnZ"], ref, what=f"{what}lnZ")
        if d:
            out.append(("lnZ=Gaussian log-normaliser", d[:4]))
    return out


def operand_write_violations(I, epoch, operands):
    """writes to operand objects since `epoch`, other than populating an empty cache field."""
    bad = []
    ids = {o.oid: o for o in operands}
    for w in I.writes[epoch:]:
        oid, cls, field, site, old, new = w
        if oid in ids:
            if field in CACHE_FIELDS and old is None:
                continue
            bad.append(f"write to operand field {cls}.{field} at {site[0]}:{site[2]} in {site[1]}")
    return bad

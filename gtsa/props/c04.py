"""C04 - cached covariance, log-determinants, mean and log-partition always match (representation invariant,
preserved by every operation; read-only queries write only invariant-consistent cache values)."""
from .. import nf, build, model
from ..nf import Val, Undecided
from ..dim import D
from ..build import sym
from ..core import Ob, Refuted
from ..interp import Obj
from .common import funcs_of, invariant_diffs, operand_write_violations, CACHE_FIELDS
from . import drivers, apis

PROP = "C04"


def conditional_invariant(o, what=""):
    out = []
    S, L, lds = o.f.get("Sigma"), o.f.get("Lambda"), o.f.get("ln_det_Sigma")
    if not (isinstance(S, Val) and isinstance(L, Val)):
        return out
    from .common import inverse_pair_diffs
    d = inverse_pair_diffs(S, L, what)
    if d:
        out.append(("Sigma*Lambda=I", d[:3]))
    if isinstance(lds, Val):
        d1 = nf.diff(lds, nf.logdet(S), what=what + "ln_det_Sigma")
        if d1:
            d2 = nf.diff(lds, nf.neg(nf.logdet(L)), what=what + "ln_det_Sigma")
            if d2:
                out.append(("ln_det_Sigma=LnDet(Sigma)", d1[:3]))
    return out


def object_invariant(prog, o, what="", lndet_oracle=None):
    if not isinstance(o, Obj):
        return []
    if prog.is_subclass(o.cls, "ConditionalGaussianPDF"):
        return conditional_invariant(o, what)
    if prog.is_subclass(o.cls, "ConjugateFactor"):
        return invariant_diffs(o, what=what, lndet_oracle=lndet_oracle)
    return []


def api_ob(prog, name, cls, ctx, drv):
    def run():
        r = drv()
        I, res, ops = r["I"], r["result"], r["operands"]
        bad = []
        struct = []
        # (a) invariant of every returned object
        outs = [res] if isinstance(res, Obj) else ([x for x in res if isinstance(x, Obj)] if isinstance(res, (tuple, list)) else [])
        oracle = None
        if name == "affine_joint_transformation" and cls in drivers.COND_CLASSES:
            # block-determinant theorem  ln det Sigma_xy = ln det Sigma_x + ln det Sigma_{y|x}  (oracle shared with C07)
            from .c07 import joint_reference
            c, px = ops["c"], ops["px"]
            Rc, Rx = c.f["Sigma"].shape[0], px.f["Sigma"].shape[0]
            Dy, Dx = c.f["Sigma"].shape[-1], px.f["Sigma"].shape[-1]
            oracle = joint_reference(c, px, (Rc, Rx, Dy, Dx))["ln_det_Sigma"]
        for o in outs:
            if any(o is op for op in ops.values()) and not r.get("mutator"):
                bad.append(f"{name} returns one of its operands (aliasing): a later in-place operation on the result changes the operand")
                struct.append(("result aliases an operand", "aliasing"))
        for o in outs:
            for fld, d in object_invariant(prog, o, f"{name} result: ", oracle):
                bad.append(f"result {o.cls}: {fld} violated: {d}")
                struct.append((f"result {o.cls}: {fld}", [tuple(q) for q in d]))
        # (b) operands: only cache-populating writes, and the invariant still holds afterwards
        if not r.get("mutator"):
            bad += operand_write_violations(I, 0, []) or []
            ids = {o.oid for o in ops.values()}
            for w in I.writes:
                oid, c, field, site, old, new = w
                if oid in ids and not (field in CACHE_FIELDS and old is None):
                    if _during_setup(I, w):
                        continue      # constructor initialisation of the operand itself
                    if (old == "<unset>" or old is None) and site[1].endswith("__post_init__"):
                        continue
                    # a first-time write of a non-cache attribute by a query (old value unset / None) is state as well: memoised
                    # intermediate results keyed on nothing make later results depend on earlier queries
                    bad.append(f"operation writes non-cache field {c}.{field} of an operand at {site[0]}:{site[2]} in {site[1]}")
        for tag, o in ops.items():
            for fld, d in object_invariant(prog, o, f"{name} operand {tag}: "):
                bad.append(f"operand '{tag}' ({o.cls}) after the call: {fld} violated: {d}")
                struct.append((f"operand {tag}: {fld}", [tuple(q) for q in d]))
        if bad:
            for b in bad:
                if "writes non-cache field" in str(b):
                    struct.append(("write", str(b).split(" at ")[0]))
            raise Refuted("; ".join(str(b)[:300] for b in bad[:3]), None, [str(b)[:600] for b in bad[:6]], sigdata=struct)
        return [], dict(funcs=funcs_of(I), objects=len(outs))
    return Ob(f"invariant/{name}/{cls}/{ctx}", run,
              "returned objects satisfy Sigma*Lambda=I, ln_det_Sigma=-ln_det_Lambda=LnDet, mu=Sigma nu, lnZ=Gaussian normaliser (given invariant operands: induction over histories); operands are written only in empty cache fields and stay invariant",
              f"{cls}.{name}", group="invariant")


def _during_setup(I, w):
    return w in I.flags.get("_setup_writes", ())


COND_ARGS = ["Sigma", "Lambda", "Sigma+Lambda", "Sigma+lndet", "Lambda+lndet", "full"]


def ctor_ob(prog, cls, args):
    r = prog.find_method(cls, "__post_init__")
    anchor = f"{prog.relpath(prog.cls(r[0]).mod)}::{r[0]}.__post_init__"

    def run():
        I = build.new_interp()
        Dy = sym("Dy")
        Dx = Dy if drivers.is_identity(cls) else sym("Dx")
        c = build.conditional(I, sym("R"), Dy, Dx, "c", cls=cls, args=args)
        bad = []
        for fld, d in conditional_invariant(c, f"{cls}({args}): "):
            bad.append(f"{fld} violated after construction from ({args}): {d}")
        for k in ("Sigma", "Lambda", "ln_det_Sigma"):
            if not isinstance(c.f.get(k), Val):
                bad.append(f"{k} is not set after construction from ({args})")
        # the given arguments are kept as given
        if bad:
            raise Refuted("; ".join(str(b)[:300] for b in bad[:3]), anchor, [str(b)[:600] for b in bad])
        return [], dict(funcs=funcs_of(I))
    return Ob(f"ctor/{cls}/{args}", run, "every constructor argument combination yields Sigma*Lambda = I and ln_det_Sigma = LnDet(Sigma) (base case of the induction over histories)", anchor, group="ctor")


def approx_ctor_ob(prog, cls):
    r = prog.find_method(cls, "__post_init__")
    anchor = f"{prog.relpath(prog.cls(r[0]).mod)}::{r[0]}.__post_init__"

    def run():
        from .approx import make_approx
        I = build.new_interp()
        c = make_approx(I, cls, "c")
        bad = [f"{fld} violated: {d}" for fld, d in conditional_invariant(c, f"{cls}: ")]
        if cls.startswith("Heteroscedastic"):
            A = c.f["A"]
            d = nf.diff(c.f["Sigma"], nf.einsum("ryk,rwk->ryw", A, A), what="Sigma = AA'")
            if d:
                bad.append(f"Sigma != A A': {d[:2]}")
        if bad:
            raise Refuted("; ".join(str(b)[:300] for b in bad[:3]), anchor)
        return [], dict(funcs=funcs_of(I))
    return Ob(f"ctor/{cls}", run, "constructed approximate conditional carries a coherent (Sigma, Lambda, ln_det_Sigma)", anchor, group="ctor")


def obligations(tier):
    prog = model.load()
    obs = []
    for cls in drivers.COND_CLASSES:
        for args in COND_ARGS:
            obs.append(ctor_ob(prog, cls, args))
    for cls in ("LRBFGaussianConditional", "LSEMGaussianConditional", "HeteroscedasticExpConditional", "HeteroscedasticCoshM1Conditional",
                "HeteroscedasticHeavisideConditional", "HeteroscedasticReLUConditional", "NNControlGaussianConditional"):
        obs.append(approx_ctor_ob(prog, cls))
    for name, cls, ctx, drv in apis.api_list(prog):
        obs.append(api_ob(prog, name, cls, ctx, _mark_setup(drv)))
    # update(idx, d): every stored field (caches included) of the receiver is scattered from the same-named field of d, so the rows
    # of the result are rows of two invariant objects (the obligation is shared with C12, where it is the field-exhaustiveness rule)
    from .common import logdomain_ob, hidden_state_ob
    obs.append(logdomain_ob(prog, "logdomain"))
    obs.append(hidden_state_ob(prog, "purity"))
    # the case of condition_on_x outside the known finding F10 (square A): decided, so that another defect in the same method is not absorbed by it
    from .c17 import coherence_square_ob, CLASSES as HETERO
    for cls in HETERO:
        obs.append(coherence_square_ob(cls))
    from .c12 import update_ob
    for cls in ("GaussianPDF", "GaussianDiagPDF"):
        ob = update_ob(prog, cls)
        ob.key = "invariant-after-" + ob.key
        ob.group = "update"
        obs.append(ob)
    return obs


def _mark_setup(drv):
    """writes performed while the abstract operands are being constructed are not effects of the operation."""
    def run():
        from .. import build as b
        orig = b.new_interp
        made = []

        def patched(*a, **k):
            I = orig(*a, **k)
            made.append(I)
            return I
        b.new_interp = patched
        try:
            # construct: the drivers build operands first and then call exactly one library method; we record the
            # number of writes at the moment the last operand construction finished via the construct hook below
            r = _run_with_marker(drv, made)
        finally:
            b.new_interp = orig
        return r
    return run


def _run_with_marker(drv, made):
    from ..interp import Interp
    orig_construct = Interp.construct
    depth = {"n": 0}

    def construct(self, clsname, kw, site=None):
        top = (self.depth == 0)
        o = orig_construct(self, clsname, kw, site)
        if top:
            self.flags["_setup_writes"] = set(self.writes)
        return o
    Interp.construct = construct
    try:
        return drv()
    finally:
        Interp.construct = orig_construct


FLOORS = {"group:invariant": 540, "group:ctor": 31, "group:update": 2, "group:coherent-square": 4}
LEVEL = "proof"
EXPLANATION = ("Every public operation (API table shared with C12) is interpreted with operands that satisfy the representation invariant (declared "
               "inverse pairs / log-determinants); each returned object's cached fields are compared with the values defined by its natural parameters, "
               "and the operands' write log is inspected (only empty cache fields may be written, with invariant-consistent values).")

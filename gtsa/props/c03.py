"""C03 - polynomial integrals equal mass x exact Gaussian (Wick / Isserlis) moments."""
import ast
import itertools
from .. import nf, build, wick, model
from ..nf import Val, Undecided
from ..dim import Dim, D
from ..build import sym
from ..core import Ob, Refuted
from .common import measure_reference, make_measure, times_mass, funcs_of

PROP = "C03"
FILE = "gaussian_toolbox/measure.py"

# the 12 polynomial integrands of the documented table (property statement); the table itself is read from the source
DOCUMENTED = [
    "x", "(Ax+a)", "xx'", "(Ax+a)'(Bx+b)", "(Ax+a)(Bx+b)'", "(Ax+a)(Bx+b)'(Cx+c)", "(Ax+a)'(Bx+b)(Cx+c)'",
    "x(A'x + a)x'", "xb'xx'", "(Ax+a)'(Bx+b)(Cx+c)'(Dx+d)", "(Ax+a)(Bx+b)'(Cx+c)(Dx+d)'",
]
SYMS = {"k": "K", "l": "L", "m": "M", "n": "N4", "o": "O5"}


def table_keys(prog, cls="GaussianMeasure"):
    """keys of <cls>.integration_dict -> "self.<method>": the property is evaluated by the interpreter on a generic object (so a
    dict literal, a comprehension over a static name table with getattr, ... are all read the same way); the AST of a dict literal
    is the fallback."""
    try:
        from ..interp import BoundMethod
        I = build.new_interp()
        if cls == "GaussianMeasure":
            o = build.measure(I, sym("R"), sym("D"), "u")
        elif cls == "TruncatedGaussianMeasure":
            u = build.measure(I, sym("R"), D(1), "u")
            o = I.construct(cls, dict(measure=u, lower_limit=nf.atom("a", [sym("R"), 1]), upper_limit=nf.atom("b", [sym("R"), 1])))
        else:
            o = None
        if o is not None:
            tab = I.getattr(o, "integration_dict")
            if isinstance(tab, dict) and tab and all(isinstance(k, str) and isinstance(v, BoundMethod) and v.obj is o for k, v in tab.items()):
                return {k: "self." + v.fn.name for k, v in tab.items()}
    except (nf.Undecided, model.AnchorError):
        pass
    _, fn = prog.method(cls, "integration_dict")
    for n in ast.walk(fn):
        if isinstance(n, ast.Dict):
            out = {}
            for k, v in zip(n.keys, n.values):
                if not isinstance(k, ast.Constant):
                    raise model.AnchorError("integration_dict key is not a literal")
                out[k.value] = ast.unparse(v)
            return out
    raise model.AnchorError("integration_dict does not return a dict literal")


def _regime_sizes(factors, letters, regime, Dd):
    """size symbol per chain letter: D if some form with that letter omits its matrix, else a rigid symbol."""
    sizes = {}
    for f, L, (mk, vk) in zip(factors, letters, regime):
        if L is None:
            continue
        if f["kind"] == "x" or mk == "none":
            sizes[L] = Dd
    for L in set(l for l in letters if l):
        sizes.setdefault(L, sym(SYMS[L]))
    return sizes


def moment_ob(key, mkind, regime):
    """regime: per factor (mat_kind, vec_kind) with kinds none|shared|per ; for scalar forms likewise."""
    def run():
        I = build.new_interp()
        R, Dd = sym("R"), sym("D")
        u = make_measure(I, mkind, R, Dd)
        factors = wick.parse_key(key)
        letters, outl = wick.chain(factors)
        sizes = _regime_sizes(factors, letters, regime, Dd)
        kwargs = {}
        forms = []
        for f, L, (mk, vk) in zip(factors, letters, regime):
            if f["kind"] == "x":
                forms.append((nf.expand_dims(nf.eye(Dd), [None]), None))
                continue
            if f["kind"] == "affine":
                K = sizes[L]
                if mk == "none":
                    mat_ref = nf.expand_dims(nf.eye(Dd), [None])
                else:
                    mat = nf.atom(f["mat"], ([R] if mk == "per" else []) + [K, Dd])
                    kwargs[f["mat"]] = mat
                    mat_ref = mat if mk == "per" else nf.expand_dims(mat, [None])
                if vk == "none":
                    vec_ref = None
                else:
                    vec = nf.atom(f["vec"], ([R] if vk == "per" else []) + [K])
                    kwargs[f["vec"]] = vec
                    vec_ref = vec if vk == "per" else nf.expand_dims(vec, [None])
                forms.append((mat_ref, vec_ref))
            elif f["kind"] == "scalar_affine":
                # x (A'x + a) x' : A_mat is [R,1,D] or [1,D]; a_vec [R,1] or [1]
                mat = nf.atom(f["mat"], ([R] if mk == "per" else []) + [1, Dd])
                kwargs[f["mat"]] = mat
                m2 = Val([a for a in mat.axes if True], mat.terms)
                mat_ref = Val(([mat.axes[0]] if mk == "per" else [()]) + [mat.axes[-1]], mat.terms)
                if vk == "none":
                    vec_ref = None
                else:
                    vec = nf.atom(f["vec"], ([R] if vk == "per" else []) + [1])
                    kwargs[f["vec"]] = vec
                    vec_ref = Val([vec.axes[0]] if vk == "per" else [()], vec.terms)
                forms.append((mat_ref, vec_ref))
            elif f["kind"] == "scalar_bx":
                mat = nf.atom(f["mat"], ([R] if mk == "per" else []) + [Dd])
                kwargs[f["mat"]] = mat
                forms.append((mat if mk == "per" else nf.expand_dims(mat, [None]), None))
        res = I.call_method(u, "integrate", [key], kwargs)
        mu, Sig, mass = measure_reference(u, mkind)
        ref = times_mass(mass, wick.wick(forms, letters, outl, mu, Sig))
        d = nf.diff(res, ref, what=f"integrate({key!r})")
        ex = [q for m, q in I.calls if "._expectation" in q]
        info = dict(funcs=funcs_of(I), terms=len(nf.normalize(ref)))
        if d and ex:
            info["construct"] = f"{FILE}::{ex[0]}"
        return d, info
    rs = ",".join(f"{a[0]}{b[0]}" for a, b in regime)
    return Ob(f"moment/{key}/{mkind}/{rs}", run, "integrate(key) == mass * Wick moment (polynomial identity, rigid sizes)",
              f"{FILE}::GaussianMeasure.integration_dict[{key!r}]", group="moment")


def regimes_for(key, tier):
    factors = wick.parse_key(key)
    per_factor = []
    for f in factors:
        if f["kind"] == "x":
            per_factor.append([("-", "-")])
        elif f["kind"] == "affine":
            per_factor.append([(m, v) for m in ("none", "shared", "per") for v in ("none", "shared", "per")])
        elif f["kind"] == "scalar_affine":
            per_factor.append([(m, v) for m in ("shared", "per") for v in ("none", "shared", "per")])
        elif f["kind"] == "scalar_bx":
            per_factor.append([(m, "-") for m in ("shared", "per")])
    n_aff = sum(1 for f in factors if f["kind"] == "affine")
    full = list(itertools.product(*per_factor))
    if tier == "thorough" and n_aff <= 2:
        return full
    # covering set: all-equal regimes + alternating mixes + every single-factor deviation from all-per (pairwise-ish)
    out = []

    def add(r):
        if r not in out:
            out.append(r)
    opts = [p for p in per_factor]
    for choice in (("per", "per"), ("shared", "shared"), ("none", "none"), ("per", "shared"), ("shared", "per"), ("none", "per"), ("per", "none"), ("none", "shared"), ("shared", "none")):
        r = tuple(choice if choice in o else o[-1] for o in opts)
        add(r)
    cyc = [("per", "per"), ("shared", "shared"), ("none", "none"), ("shared", "per"), ("per", "none")]
    for shift in range(len(cyc) if tier == "thorough" else 2):
        r = tuple((cyc[(i + shift) % len(cyc)] if cyc[(i + shift) % len(cyc)] in o else o[0]) for i, o in enumerate(opts))
        add(r)
    if tier == "thorough":
        base = tuple(("per", "per") if ("per", "per") in o else o[-1] for o in opts)
        for i, o in enumerate(opts):
            for alt in o:
                r = list(base)
                r[i] = alt
                add(tuple(r))
    return out


def wiring_ob(prog):
    def run():
        tab = table_keys(prog)
        problems = []
        for k in DOCUMENTED:
            if k not in tab:
                problems.append(f"documented integrand {k!r} missing from integration_dict")
        for k, target in tab.items():
            if not target.startswith("self."):
                problems.append(f"{k!r} -> {target} is not a bound method of the measure")
                continue
            if prog.find_method("GaussianMeasure", target[5:]) is None:
                problems.append(f"{k!r} -> {target}: no such method")
        if problems:
            raise Refuted("; ".join(problems), f"{FILE}::GaussianMeasure.integration_dict")
        return [], dict(keys=len(tab))
    return Ob("wiring/table", run, "every documented integrand is a key bound to an existing method", f"{FILE}::GaussianMeasure.integration_dict", group="wiring")


def callsites_ob(prog):
    def run():
        tab = table_keys(prog)
        ttab = {}
        if prog.find_method("TruncatedGaussianMeasure", "integration_dict"):
            ttab = table_keys(prog, "TruncatedGaussianMeasure")
        sites = 0
        problems = []
        for mod, tree in prog.modules.items():
            for n in ast.walk(tree):
                if isinstance(n, ast.Call) and isinstance(n.func, ast.Attribute) and n.func.attr == "integrate":
                    sites += 1
                    if n.args:
                        if not isinstance(n.args[0], ast.Constant):
                            problems.append(f"{prog.relpath(mod)}:{n.lineno}: non-literal integrand")
                            continue
                        key = n.args[0].value
                    else:
                        key = "1"
                    cands = [(c, t[key]) for c, t in (("GaussianMeasure", tab), ("TruncatedGaussianMeasure", ttab)) if key in t]
                    if not cands:
                        problems.append(f"{prog.relpath(mod)}:{n.lineno} in {prog.qualname_at(mod, n.lineno)}: integrate({key!r}) is not a key of any integration table")
                        continue
                    kws = [k.arg for k in n.keywords if k.arg]
                    ok = False
                    for c, target in cands:
                        fn = prog.find_method(c, target[5:])
                        if fn is None:
                            continue
                        params = [a.arg for a in fn[1].args.args[1:]] + [a.arg for a in fn[1].args.kwonlyargs]
                        if all(k in params for k in kws) or fn[1].args.kwarg is not None:
                            ok = True
                    if not ok:
                        problems.append(f"{prog.relpath(mod)}:{n.lineno} in {prog.qualname_at(mod, n.lineno)}: integrate({key!r}) passes keywords {kws} not accepted by the target method")
        if sites < 55:
            raise Undecided(f"only {sites} integrate call sites found (floor 55)")
        if problems:
            raise Refuted("; ".join(problems[:5]), problems[0].split(":")[0])
        return [], dict(call_sites=sites)
    return Ob("wiring/callsites", run, "every library call site of integrate() names an existing key and accepted keywords", "gaussian_toolbox/**::*.integrate(...)", group="wiring")


def obligations(tier):
    prog = model.load()
    obs = [wiring_ob(prog), callsites_ob(prog)]
    tab = table_keys(prog)
    keys = [k for k in tab if k not in ("1", "log u(x)")]
    for k in keys:
        try:
            wick.parse_key(k)
        except wick.KeyError_ as e:
            raise model.AnchorError(f"integration table key {k!r} is outside the reference grammar: {e}")
    for k in keys:
        regs = regimes_for(k, tier)
        for r in regs:
            obs.append(moment_ob(k, "cold", r))
        # densities / warm / diagonal measures with the all-per regime and the all-shared regime
        kinds = ["pdf", "warm", "diag"] if tier == "quick" else ["pdf", "warm", "diag", "diagpdf"]
        for mk in kinds:
            for r in regs[:2] if tier == "quick" else regs[:4]:
                obs.append(moment_ob(k, mk, r))
    from .common import no_narrowing_ob
    obs.append(no_narrowing_ob(model.load(), "dtype"))
    return obs


FLOORS = {"group:moment": 100, "group:wiring": 2, "group:dtype": 1}
LEVEL = "proof"
EXPLANATION = ("Every key of GaussianMeasure.integration_dict is interpreted abstractly (source of measure.py, "
               "unmodified) on generic tensors with rigid sizes R,D,K,L,M and compared, as a normal form, with the "
               "Wick/Isserlis expansion generated from the integrand string; contexts: measure kind x coefficient regime.")

"""C08 - marginal transformation p(y) = N(M mu + b, Sigma + M Sigma_x M')."""
from .. import nf, build, model
from ..dim import D
from ..build import sym
from ..core import Ob, Refuted
from .common import funcs_of
from . import drivers
from .drivers import cond_params, setup_cond, flat2
from .c07 import joint_reference, _bc, tile_c, tile_x

PROP = "C08"
C = "gaussian_toolbox/conditional.py"


def marginal_reference(c, px, sizes):
    Rc, Rx, Dy, Dx = sizes
    M, b, S, L, lds = cond_params(c, Rc, Dy, Dx)
    mx, Sx = px.f["mu"], px.f["Sigma"]
    my = nf.einsum("cyx,rx->cry", M, mx)
    if b is not None:
        my = nf.add(my, nf.expand_dims(b, ["k", None]))
    MSM = nf.einsum("cyx,rxz,cwz->cryw", M, Sx, M)
    Sy = nf.add(nf.expand_dims(S, ["k", None]), MSM)
    return dict(mu=flat2(_bc(my, Rc, Rx)), Sigma=flat2(_bc(Sy, Rc, Rx)))


def marginal_ob(prog, cls, ctx):
    owner, _ = prog.method(cls, "affine_marginal_transformation")
    anchor = f"{C}::{owner}.affine_marginal_transformation"

    def run():
        I, c, px, sizes = setup_cond(cls, ctx)
        res = I.call_method(c, "affine_marginal_transformation", [px])
        if not I.prog.is_subclass(res.cls, "GaussianPDF"):
            raise Refuted(f"returns {res.cls}", anchor)
        ref = marginal_reference(c, px, sizes)
        d = []
        for fld in ("mu", "Sigma"):
            d += [(fld,) + tuple(q) for q in nf.diff(res.f[fld], ref[fld], what=f"marginal {fld}")[:6]]
        # precision / log-determinant / normaliser derived by the constructor from exactly this Sigma (value numbers)
        Lref, ldref = nf.inverse(ref["Sigma"])
        d += [("Lambda",) + tuple(q) for q in nf.diff(res.f["Lambda"], Lref, what="marginal Lambda")[:4]]
        d += [("ln_det_Sigma",) + tuple(q) for q in nf.diff(res.f["ln_det_Sigma"], ldref, what="marginal ln_det_Sigma")[:4]]
        return d, dict(funcs=funcs_of(I), construct=anchor)
    return Ob(f"marginal/{cls}/{ctx}", run, "marginal == N(M mu_x + b, Sigma + M Sigma_x M') in layout Rc (x) Rx; precision and log-det derived from that covariance",
              anchor, group="marginal")


def yblock_ob(prog, cls, ctx):
    owner, _ = prog.method(cls, "affine_marginal_transformation")
    anchor = f"{C}::{owner}.affine_marginal_transformation"

    def run():
        I, c, px, sizes = setup_cond(cls, ctx)
        Rc, Rx, Dy, Dx = sizes
        marg = I.call_method(c, "affine_marginal_transformation", [px])
        joint = I.call_method(c, "affine_joint_transformation", [px])
        from ..interp import IdxArr
        dims = IdxArr("ydims", Dy, kind="arange", lo=Dx)
        jm = I.call_method(joint, "get_marginal", [dims])
        d = []
        for fld in ("mu", "Sigma"):
            d += [(fld,) + tuple(q) for q in nf.diff(marg.f[fld], jm.f[fld], what=f"y-block {fld}")[:6]]
        return d, dict(funcs=funcs_of(I), construct=anchor)
    return Ob(f"yblock/{cls}/{ctx}", run, "marginal transformation == y-marginal (coordinates Dx..Dx+Dy) of the joint transformation", anchor, group="yblock")


def obligations(tier):
    prog = model.load()
    obs = []
    for cls in drivers.COND_CLASSES:
        for ctx in drivers.BATCH_CTX + drivers.ROUTE_CTX:
            obs.append(marginal_ob(prog, cls, ctx))
            obs.append(yblock_ob(prog, cls, ctx))
    return obs


FLOORS = {"group:marginal": 12, "group:yblock": 12}
LEVEL = "proof"
EXPLANATION = "affine_marginal_transformation of every linear conditional class in the three batch configurations; compared with the push-forward reference and with the y-block of the joint."

"""C14 - expected log-factor and expected log-conditional integrals (linear / identity classes) are exact."""
from .. import nf, build, model, wick
from ..nf import Val
from ..dim import D, LOG2PI
from ..build import sym
from ..core import Ob, Refuted
from .common import funcs_of, make_measure, make_factor, measure_reference, times_mass
from . import drivers
from .drivers import cond_params

PROP = "C14"
F = "gaussian_toolbox/factor.py"
C = "gaussian_toolbox/conditional.py"


def _inner(forms, mu, Sig):
    facs = wick.parse_key("(Ax+a)'(Bx+b)")
    letters, outl = wick.chain(facs)
    return wick.wick(forms, letters, outl, mu, Sig)


def log_factor_ob(mkind, fkind, fb):
    def run():
        I = build.new_interp()
        R, Dd = sym("R"), sym("D")
        u = make_measure(I, mkind, R, Dd, "u")
        f = make_factor(I, fkind, R if fb == "R" else D(1), Dd, "f")
        got = I.call_method(u, "integrate", ["log u(x)"], dict(factor=f))
        mu, Sig, mass = measure_reference(u, mkind)
        eye = nf.expand_dims(nf.eye(Dd), [None])
        quad = _inner([(eye, None), (f.f["Lambda"], None)], mu, Sig)               # E[x' Lambda_f x]
        lin = nf.einsum("rd,rd->r", f.f["nu"], mu)
        e = nf.add(nf.add(nf.scale(quad, D(-1) / 2), lin), f.f["ln_beta"])
        ref = times_mass(mass, e)
        return nf.diff(got, ref, what="integrate('log u(x)')"), dict(funcs=funcs_of(I))
    return Ob(f"logfactor/{mkind}/{fkind}/{fb}", run, "integrate('log u(x)', factor=f) == mass * E[-1/2 x'Lambda x + nu'x + ln beta] (Wick)", f"{F}::ConjugateFactor._integrate_log_factor", group="logfactor")


def joint_A(M, b, Dy, Dx):
    """residual  y - Mx - b = A z + a  with z = (y, x):  A = [I, -M] (columns 0..Dy | Dy..Dy+Dx), a = -b."""
    eyeb = nf.expand_dims(nf.eye(Dy), [None])
    if M is None:
        negM = nf.neg(eyeb)
    else:
        negM = nf.neg(M)
    A = nf.concat([eyeb if not negM.axes[0] else nf.tile(eyeb, [negM.shape[0], 1, 1]), negM], 2)
    a = None if b is None else nf.neg(b)
    return A, a


def log_conditional_ob(prog, cls, paired=False):
    """paired: the conditional has one component per component of q (R equal to the measure's, the second case of the property's quantifier;
    added after the mutation sweep: the guard `self.R != 1 and self.R != p_yx.R` could be edited to reject it unnoticed)"""
    owner, _ = prog.method(cls, "integrate_log_conditional")
    anchor = f"{C}::{owner}.integrate_log_conditional"

    def run():
        I = build.new_interp()
        R, Dy = sym("R"), sym("Dy")
        Dx = Dy if drivers.is_identity(cls) else sym("Dx")
        Rc = R if paired else D(1)
        c = build.conditional(I, Rc, Dy, Dx, "c", cls=cls)
        q = build.pdf(I, R, Dy + Dx, "q")
        got = I.call_method(c, "integrate_log_conditional", [q])
        M, b, S, L, lds = cond_params(c, Rc, Dy, Dx)
        A, a = joint_A(None if drivers.is_identity(cls) else M, b, Dy, Dx)
        LA = nf.einsum("ryw,rwz->ryz", L, A)
        La = None if a is None else nf.einsum("ryw,rw->ry", L, a)
        quad = _inner([(A, a), (LA, La)], q.f["mu"], q.f["Sigma"])
        ref = nf.scale(nf.add(quad, nf.add(lds, nf.const(Dy * LOG2PI))), D(-1) / 2)
        return nf.diff(got, ref, what="integrate_log_conditional"), dict(funcs=funcs_of(I), construct=anchor)
    return Ob(f"logcond/{cls}" + ("/R=R" if paired else ""), run, "integrate_log_conditional(q) == E_q[ln N(y; Mx+b, Sigma)] for an arbitrary Gaussian q over (y,x) (Wick on the residual [I,-M]z - b)", anchor, group="logcond")


def log_conditional_y_ob(prog, cls, ctx, as_callable):
    owner, _ = prog.method(cls, "integrate_log_conditional_y")
    anchor = f"{C}::{owner}.integrate_log_conditional_y"

    def run():
        I = build.new_interp()
        N, Dy = sym("N"), sym("Dy")
        Dx = Dy if drivers.is_identity(cls) else sym("Dx")
        c = build.conditional(I, D(1), Dy, Dx, "c", cls=cls)
        Rx = N if ctx == "N/N" else D(1)
        px = build.pdf(I, Rx, Dx, "px")
        y = build.points("y", N, Dy)
        if as_callable:
            f = I.call_method(c, "integrate_log_conditional_y", [px])
            got = I.call(f, [y], {})
        else:
            got = I.call_method(c, "integrate_log_conditional_y", [px], dict(y=y))
        M, b, S, L, lds = cond_params(c, D(1), Dy, Dx)
        if drivers.is_identity(cls):
            negM = nf.neg(nf.expand_dims(nf.eye(Dy), [None]))
        else:
            negM = nf.neg(M)
        yb = y if b is None else nf.add(y, b, -1)              # [N, Dy]
        LnegM = nf.einsum("ryw,rwz->ryz", L, negM)
        Lyb = nf.einsum("ryw,nw->ny", L, yb)
        quad = _inner([(negM, yb), (LnegM, Lyb)], px.f["mu"], px.f["Sigma"])
        ref = nf.scale(nf.add(quad, nf.add(lds, nf.const(Dy * LOG2PI))), D(-1) / 2)
        return nf.diff(got, ref, what="integrate_log_conditional_y"), dict(funcs=funcs_of(I), construct=anchor)
    return Ob(f"logcond_y/{cls}/{ctx}/{'callable' if as_callable else 'y'}", run,
              "integrate_log_conditional_y(p_x)(y) == E_{p(x)}[ln N(y; Mx+b, Sigma)] (callable and evaluated forms)", anchor, group="logcond_y")


# ------------------------------------------------------------------ feature models (RBF / squared exponential)
def _density_natural(S, mu):
    """natural parameters (Lambda, nu, ln_beta, ln_det_Sigma) of the normalised density N(mu, S) (reference formulas)."""
    L, lds = nf.inverse(S)
    nu = nf.einsum("rab,rb->ra", L, mu)
    Dd = S.shape[-1]
    lnZ = nf.scale(nf.add(nf.add(nf.einsum("ra,rab,rb->r", nu, S, nu), nf.const(Dd * LOG2PI)), lds), D(1) / 2)
    return L, nu, nf.neg(lnZ), lds


def _embed_kernel(Lk, nk, Dy, Dx):
    """kernel parameters over x placed in the joint space z = (y, x)."""
    tot = Dy + Dx
    Lj = nf.embed_axis(nf.embed_axis(Lk, 1, Dy, tot), 2, Dy, tot)
    nj = nf.embed_axis(nk, 1, Dy, tot)
    return Lj, nj


def kernel_expectations(c, S, mu, Dd, joint=None):
    """for the density N(mu, S) over x (or over z=(y,x) with the kernels embedded when joint=(Dy,Dx)):
    returns E[k_i] [R,Dk], E[k_i * z] [R,Dk,Dd], E[k_i k_j] [R,Dk,Dk] by the product-measure formulas
    (Sherman-Morrison form for rank-one kernels)."""
    from .c16 import rank_one_update, mass_mean_cov, mass_and_mean
    from .drivers import flat2
    k = c.f["k_func"]
    R = S.shape[0]
    L, nu, lb, lds = _density_natural(S, mu)
    if k.cls == "OneRankFactor":
        v, g, nuk, lbk = k.f["v"], k.f["g"], k.f["nu"], k.f["ln_beta"]
        if joint:
            v = nf.embed_axis(v, 1, joint[0], joint[0] + joint[1])
            nuk = nf.embed_axis(nuk, 1, joint[0], joint[0] + joint[1])
        S1, l1, n1, b1 = rank_one_update(S, lds, nu, lb, v, g, nuk, lbk)
        m1, mu1 = mass_mean_cov(S1, l1, n1, b1, Dd)
        S2, l2, n2, b2 = rank_one_update(S1, l1, n1, b1, v, g, nuk, lbk)
        m2, _ = mass_mean_cov(S2, l2, n2, b2, Dd)
        return m1, nf.mul(nf.expand_dims(m1, ["k", "k", None]), mu1), m2
    Lk, nk, bk = k.f["Lambda"], k.f["nu"], k.f["ln_beta"]
    if joint:
        Lk, nk = _embed_kernel(Lk, nk, joint[0], joint[1])
    Dk = bk.shape[0]
    L1 = flat2(nf.add(nf.expand_dims(L, ["k", None]), nf.expand_dims(Lk, [None])))
    n1 = flat2(nf.add(nf.expand_dims(nu, ["k", None]), nf.expand_dims(nk, [None])))
    b1 = flat2(nf.add(nf.expand_dims(lb, ["k", None]), nf.expand_dims(bk, [None])), 2)
    m1, mu1 = mass_and_mean(L1, n1, b1)
    Ek = nf.reshape(m1, [R, Dk])
    Ekz = nf.reshape(nf.mul(nf.expand_dims(m1, ["k", None]), mu1), [R, Dk, Dd])
    L2 = flat2(nf.add(nf.add(nf.expand_dims(L, ["k", None, None]), nf.expand_dims(Lk, [None, "k", None])), nf.expand_dims(Lk, [None, None])), 3)
    n2 = flat2(nf.add(nf.add(nf.expand_dims(nu, ["k", None, None]), nf.expand_dims(nk, [None, "k", None])), nf.expand_dims(nk, [None, None])), 3)
    b2 = flat2(nf.add(nf.add(nf.expand_dims(lb, ["k", None, None]), nf.expand_dims(bk, [None, "k", None])), nf.expand_dims(bk, [None, None])), 3)
    m2, _ = mass_and_mean(L2, n2, b2)
    return Ek, Ekz, nf.reshape(m2, [R, Dk, Dk])


def feature_logcond_ob(cls):
    def run():
        from .approx import make_approx
        I = build.new_interp()
        c = make_approx(I, cls, "c")
        R, Dy, Dx, Dk = sym("R"), sym("Dy"), sym("Dx"), sym("Dk")
        q = build.pdf(I, R, Dy + Dx, "q")
        got = I.call_method(c, "integrate_log_conditional", [q])
        M, b, L, lds = c.f["M"], c.f["b"], c.f["Lambda"], c.f["ln_det_Sigma"]
        Mlin = nf.slice_axis(M, 2, 0, Dx)
        Mk = nf.slice_axis(M, 2, Dx, Dx + Dk)
        A, a = joint_A(Mlin, b, Dy, Dx)
        LA = nf.einsum("ryw,rwz->ryz", L, A)
        La = nf.einsum("ryw,rw->ry", L, a)
        Q = _inner([(A, a), (LA, La)], q.f["mu"], q.f["Sigma"])
        # E[(Mk k)' Lambda (A z + a)] = sum_k Mk[:,k]' ( Lambda A E[k_k z] + Lambda a E[k_k] )
        Ek, Ekz, _ = kernel_expectations(c, q.f["Sigma"], q.f["mu"], Dy + Dx, joint=(Dy, Dx))
        lin = nf.add(nf.einsum("oyk,oyz,rkz->r", Mk, LA, Ekz), nf.einsum("oyk,oy,rk->r", Mk, La, Ek))
        # E[k' Mk' Lambda Mk k] under the x-marginal of q
        Sxx = nf.slice_axis(nf.slice_axis(q.f["Sigma"], 1, Dy, Dy + Dx), 2, Dy, Dy + Dx)
        mx = nf.slice_axis(q.f["mu"], 1, Dy, Dy + Dx)
        _, _, Ekk = kernel_expectations(c, Sxx, mx, Dx)
        K = nf.einsum("oyk,oyw,owl,rkl->r", Mk, L, Mk, Ekk)
        ref = nf.scale(nf.add(nf.add(nf.add(Q, nf.scale(lin, -2)), K), nf.add(lds, nf.const(Dy * LOG2PI))), D(-1) / 2)
        return nf.diff(got, ref, what="integrate_log_conditional (feature model)"), dict(funcs=funcs_of(I))
    return Ob(f"logcond/{cls}", run,
              "integrate_log_conditional(q) == E_q[ln N(y; M_lin x + M_k k(x) + b, Sigma)]: Wick for the polynomial part, product-measure mass / mean for E[k g(z)] (kernels embedded in (y,x)), x-marginal for E[k k']",
              f"gaussian_toolbox/approximate_conditional.py::{cls}.integrate_log_conditional", group="feature")


def feature_logcond_y_ob(cls, as_callable):
    def run():
        from .approx import make_approx
        I = build.new_interp()
        c = make_approx(I, cls, "c")
        R, Dy, Dx, Dk = sym("R"), sym("Dy"), sym("Dx"), sym("Dk")
        px = build.pdf(I, R, Dx, "px")
        y = build.points("y", R, Dy)
        if as_callable:
            got = I.call(I.call_method(c, "integrate_log_conditional_y", [px]), [y], {})
        else:
            got = I.call_method(c, "integrate_log_conditional_y", [px], dict(y=y))
        M, b, L, lds = c.f["M"], c.f["b"], c.f["Lambda"], c.f["ln_det_Sigma"]
        Mlin = nf.slice_axis(M, 2, 0, Dx)
        Mk = nf.slice_axis(M, 2, Dx, Dx + Dk)
        LM = nf.einsum("oyw,owx->oyx", L, Mlin)
        Lb = nf.einsum("oyw,ow->oy", L, b)
        Q0 = _inner([(Mlin, b), (LM, Lb)], px.f["mu"], px.f["Sigma"])
        Ek, Ekx, Ekk = kernel_expectations(c, px.f["Sigma"], px.f["mu"], Dx)
        cross = nf.add(nf.einsum("oyk,oyx,rkx->r", Mk, LM, Ekx), nf.einsum("oyk,oy,rk->r", Mk, Lb, Ek))
        K = nf.einsum("oyk,oyw,owl,rkl->r", Mk, L, Mk, Ekk)
        Emean = nf.add(nf.add(nf.einsum("oyx,rx->ry", Mlin, px.f["mu"]), b), nf.einsum("oyk,rk->ry", Mk, Ek))
        yLy = nf.einsum("ry,oyw,rw->r", y, L, y)
        yLm = nf.einsum("ry,oyw,rw->r", y, L, Emean)
        quad = nf.add(nf.add(nf.add(yLy, nf.scale(yLm, -2)), nf.add(Q0, nf.scale(cross, 2))), K)
        ref = nf.scale(nf.add(quad, nf.add(lds, nf.const(Dy * LOG2PI))), D(-1) / 2)
        return nf.diff(got, ref, what="integrate_log_conditional_y (feature model)"), dict(funcs=funcs_of(I))
    return Ob(f"logcond_y/{cls}/{'callable' if as_callable else 'y'}", run,
              "integrate_log_conditional_y(p_x)(y) == E_{p(x)}[ln N(y; M_lin x + M_k k(x) + b, Sigma)]", f"gaussian_toolbox/approximate_conditional.py::{cls}.integrate_log_conditional_y", group="feature")


def obligations(tier):
    prog = model.load()
    obs = []
    for cls in ("LRBFGaussianConditional", "LSEMGaussianConditional"):
        obs.append(feature_logcond_ob(cls))
        for cal in (False, True):
            obs.append(feature_logcond_y_ob(cls, cal))
    for mk in ("cold", "warm", "pdf"):
        for fk in ("ConjugateFactor", "OneRankFactor", "LinearFactor", "ConstantFactor", "GaussianMeasure", "GaussianPDF"):
            for fb in ("R", "1"):
                obs.append(log_factor_ob(mk, fk, fb))
    for cls in drivers.COND_CLASSES:
        obs.append(log_conditional_ob(prog, cls))
        if not drivers.is_identity(cls):       # the identity-mean classes raise NotImplementedError("Only implemented for R=1.") for R > 1: outside their domain
            obs.append(log_conditional_ob(prog, cls, paired=True))
        for ctx in ("1/N", "N/N"):
            for cal in (False, True):
                obs.append(log_conditional_y_ob(prog, cls, ctx, cal))
    return obs


FLOORS = {"group:feature": 6, "group:logfactor": 36, "group:logcond": 4, "group:logcond_y": 16}
LEVEL = "proof"
EXPLANATION = ("_integrate_log_factor for every factor kind x batch; integrate_log_conditional / integrate_log_conditional_y of the linear, diagonal and identity-mean "
               "conditionals against Wick-generated expectations for an ARBITRARY Gaussian q / p(x). RBF / squared-exponential feature models are not decided here "
               "(their kernel expectations reduce to C01-C03 clauses; see DESIGN.md).")

"""C14 - expected log-factor and expected log-conditional integrals (linear / identity classes) are exact."""
from .. import nf, build, model, wick
from ..nf import Val
from ..dim import D, LOG2PI
from ..build import sym
from ..core import Ob, Refuted
from .common import funcs_of, make_measure, make_factor, measure_reference, times_mass
from . import drivers
from .drivers import cond_params

PROP = "C14"
F = "gaussian_toolbox/factor.py"
C = "gaussian_toolbox/conditional.py"


def _inner(forms, mu, Sig):
    facs = wick.parse_key("(Ax+a)'(Bx+b)")
    letters, outl = wick.chain(facs)
    return wick.wick(forms, letters, outl, mu, Sig)


def log_factor_ob(mkind, fkind, fb):
    def run():
        I = build.new_interp()
        R, Dd = sym("R"), sym("D")
        u = make_measure(I, mkind, R, Dd, "u")
        f = make_factor(I, fkind, R if fb == "R" else D(1), Dd, "f")
        got = I.call_method(u, "integrate", ["log u(x)"], dict(factor=f))
        mu, Sig, mass = measure_reference(u, mkind)
        eye = nf.expand_dims(nf.eye(Dd), [None])
        quad = _inner([(eye, None), (f.f["Lambda"], None)], mu, Sig)               # E[x' Lambda_f x]
        lin = nf.einsum("rd,rd->r", f.f["nu"], mu)
        e = nf.add(nf.add(nf.scale(quad, D(-1) / 2), lin), f.f["ln_beta"])
        ref = times_mass(mass, e)
        return nf.diff(got, ref, what="integrate('log u(x)')"), dict(funcs=funcs_of(I))
    return Ob(f"logfactor/{mkind}/{fkind}/{fb}", run, "integrate('log u(x)', factor=f) == mass * E[-1/2 x'Lambda x + nu'x + ln beta] (Wick)", f"{F}::ConjugateFactor._integrate_log_factor", group="logfactor")


def joint_A(M, b, Dy, Dx):
    """residual  y - Mx - b = A z + a  with z = (y, x):  A = [I, -M] (columns 0..Dy | Dy..Dy+Dx), a = -b."""
    eyeb = nf.expand_dims(nf.eye(Dy), [None])
    if M is None:
        negM = nf.neg(eyeb)
    else:
        negM = nf.neg(M)
    A = nf.concat([eyeb if not negM.axes[0] else nf.tile(eyeb, [negM.shape[0], 1, 1]), negM], 2)
    a = None if b is None else nf.neg(b)
    return A, a


def log_conditional_ob(prog, cls):
    owner, _ = prog.method(cls, "integrate_log_conditional")
    anchor = f"{C}::{owner}.integrate_log_conditional"

    def run():
        I = build.new_interp()
        R, Dy = sym("R"), sym("Dy")
        Dx = Dy if drivers.is_identity(cls) else sym("Dx")
        c = build.conditional(I, D(1), Dy, Dx, "c", cls=cls)
        q = build.pdf(I, R, Dy + Dx, "q")
        got = I.call_method(c, "integrate_log_conditional", [q])
        M, b, S, L, lds = cond_params(c, D(1), Dy, Dx)
        A, a = joint_A(None if drivers.is_identity(cls) else M, b, Dy, Dx)
        LA = nf.einsum("ryw,rwz->ryz", L, A)
        La = None if a is None else nf.einsum("ryw,rw->ry", L, a)
        quad = _inner([(A, a), (LA, La)], q.f["mu"], q.f["Sigma"])
        ref = nf.scale(nf.add(quad, nf.add(lds, nf.const(Dy * LOG2PI))), D(-1) / 2)
        return nf.diff(got, ref, what="integrate_log_conditional"), dict(funcs=funcs_of(I), construct=anchor)
    return Ob(f"logcond/{cls}", run, "integrate_log_conditional(q) == E_q[ln N(y; Mx+b, Sigma)] for an arbitrary Gaussian q over (y,x) (Wick on the residual [I,-M]z - b)", anchor, group="logcond")


def log_conditional_y_ob(prog, cls, ctx, as_callable):
    owner, _ = prog.method(cls, "integrate_log_conditional_y")
    anchor = f"{C}::{owner}.integrate_log_conditional_y"

    def run():
        I = build.new_interp()
        N, Dy = sym("N"), sym("Dy")
        Dx = Dy if drivers.is_identity(cls) else sym("Dx")
        c = build.conditional(I, D(1), Dy, Dx, "c", cls=cls)
        Rx = N if ctx == "N/N" else D(1)
        px = build.pdf(I, Rx, Dx, "px")
        y = build.points("y", N, Dy)
        if as_callable:
            f = I.call_method(c, "integrate_log_conditional_y", [px])
            got = I.call(f, [y], {})
        else:
            got = I.call_method(c, "integrate_log_conditional_y", [px], dict(y=y))
        M, b, S, L, lds = cond_params(c, D(1), Dy, Dx)
        if drivers.is_identity(cls):
            negM = nf.neg(nf.expand_dims(nf.eye(Dy), [None]))
        else:
            negM = nf.neg(M)
        yb = y if b is None else nf.add(y, b, -1)              # [N, Dy]
        LnegM = nf.einsum("ryw,rwz->ryz", L, negM)
        Lyb = nf.einsum("ryw,nw->ny", L, yb)
        quad = _inner([(negM, yb), (LnegM, Lyb)], px.f["mu"], px.f["Sigma"])
        ref = nf.scale(nf.add(quad, nf.add(lds, nf.const(Dy * LOG2PI))), D(-1) / 2)
        return nf.diff(got, ref, what="integrate_log_conditional_y"), dict(funcs=funcs_of(I), construct=anchor)
    return Ob(f"logcond_y/{cls}/{ctx}/{'callable' if as_callable else 'y'}", run,
              "integrate_log_conditional_y(p_x)(y) == E_{p(x)}[ln N(y; Mx+b, Sigma)] (callable and evaluated forms)", anchor, group="logcond_y")


def obligations(tier):
    prog = model.load()
    obs = []
    for mk in ("cold", "warm", "pdf"):
        for fk in ("ConjugateFactor", "OneRankFactor", "LinearFactor", "ConstantFactor", "GaussianMeasure", "GaussianPDF"):
            for fb in ("R", "1"):
                obs.append(log_factor_ob(mk, fk, fb))
    for cls in drivers.COND_CLASSES:
        obs.append(log_conditional_ob(prog, cls))
        for ctx in ("1/N", "N/N"):
            for cal in (False, True):
                obs.append(log_conditional_y_ob(prog, cls, ctx, cal))
    return obs


FLOORS = {"group:logfactor": 36, "group:logcond": 4, "group:logcond_y": 16}
LEVEL = "proof"
EXPLANATION = ("_integrate_log_factor for every factor kind x batch; integrate_log_conditional / integrate_log_conditional_y of the linear, diagonal and identity-mean "
               "conditionals against Wick-generated expectations for an ARBITRARY Gaussian q / p(x). RBF / squared-exponential feature models are not decided here "
               "(their kernel expectations reduce to C01-C03 clauses; see DESIGN.md).")

"""C01 - measure x conjugate factor is pointwise multiplication (layout i*R2+j, hadamard broadcast, product())."""
from .. import nf, build, model
from ..nf import Val, Undecided
from ..dim import Dim, D
from ..build import sym
from ..core import Ob, Refuted
from .common import (make_measure, make_factor, obj_ln, funcs_of, FACTOR_KINDS, invariant_diffs,
                     operand_write_violations)

PROP = "C01"
F = "gaussian_toolbox/factor.py"
M = "gaussian_toolbox/measure.py"
MEASURE_KINDS = ["cold", "warm", "pdf"]


def _override_anchor(prog, fkind, meth):
    owner, _ = prog.method(fkind, meth)
    return f"{prog.relpath(prog.cls(owner).mod)}::{owner}.{meth}"


def evaluate_ob(kind, element_wise):
    def run():
        I = build.new_interp()
        R, Dd, N = sym("R"), sym("D"), sym("N")
        o = make_factor(I, kind, R, Dd)
        x = build.points("x", R if element_wise else N, Dd)
        res = I.call_method(o, "evaluate_ln", [x], dict(element_wise=element_wise))
        ref = obj_ln(o, x)
        if element_wise:
            ref = nf.einsum("rr->r", ref) if False else nf.diagonal(ref, 0, 1)
        d = nf.diff(res, ref, what="evaluate_ln")
        # evaluate == exp(evaluate_ln)
        ev = I.call_method(o, "evaluate", [x], dict(element_wise=element_wise))
        d2 = nf.diff(ev, nf.elementwise("Exp", res), what="evaluate")
        cl = I.call_method(o, "__call__", [x], dict(element_wise=element_wise))
        d3 = nf.diff(cl, ev, what="__call__")
        return d + d2 + d3, dict(funcs=funcs_of(I))
    return Ob(f"evaluate/{kind}/{'elementwise' if element_wise else 'all'}", run,
              "evaluate_ln(x) == -1/2 x'Lambda x + nu'x + ln_beta ; evaluate == exp(evaluate_ln) ; __call__ == evaluate",
              f"{F}::ConjugateFactor.evaluate_ln", group="evaluate")


def product_ob(prog, mkind, fkind, op, update_full, batch):
    anchor = _override_anchor(prog, fkind, "_hadamard_with_measure" if op == "hadamard" else "_multiply_with_measure")

    def run():
        I = build.new_interp()
        Dd, N = sym("D"), sym("N")
        if op == "hadamard":
            R1 = sym("R") if batch in ("R/R", "R/1") else D(1)
            R2 = sym("R") if batch in ("R/R", "1/R") else D(1)
        else:
            R1, R2 = sym("R1"), sym("R2")
        u = make_measure(I, mkind, R1, Dd, "u")
        f = make_factor(I, fkind, R2, Dd, "f")
        x = build.points("x", N, Dd)
        ln_u, ln_f = obj_ln(u, x), obj_ln(f, x)        # reference values of the operands *before* the call
        snap_u, snap_f = dict(u.f), dict(f.f)
        epoch = len(I.writes)
        if op == "*":
            res = I.call_method(u, "__mul__", [f])
        else:
            res = I.call_method(u, op, [f], dict(update_full=update_full))
        if not I.prog.is_subclass(res.cls, "GaussianMeasure") or I.prog.is_subclass(res.cls, "GaussianPDF"):
            raise Refuted(f"product returned a {res.cls} (an un-normalised Gaussian measure is expected)", anchor)
        from .common import diagonal_class_diffs
        dg = diagonal_class_diffs(res)
        if dg:
            raise Refuted(f"product returned a {res.cls} whose precision is not diagonal: its integrals use the diagonal inverse", anchor, dg)
        got = obj_ln(res, x)
        # the result is a batch of R components in every field (otherwise a following product()/slice() reduces a broadcast
        # size-1 axis instead of the components)
        Rres = (R1 if R2 == D(1) else R2) if op == "hadamard" else R1 * R2
        for k in ("Lambda", "nu", "ln_beta", "Sigma", "ln_det_Sigma", "ln_det_Lambda"):
            v = res.f.get(k)
            if isinstance(v, nf.Val) and (not v.axes or v.shape[0] != Rres):
                raise Refuted(f"result field {k} has leading size {v.shape[0] if v.axes else 'scalar'} instead of the component count {Rres}", anchor)
        if op == "hadamard":
            ref = nf.add(ln_u, ln_f)
        else:
            outer = nf.add(nf.expand_dims(ln_u, ["k", None, "k"]), nf.expand_dims(ln_f, [None, "k", "k"]))   # [R1,R2,N]
            ref = nf.reshape(outer, [R1 * R2, N])
        d = nf.diff(got, ref, what=f"{op} value")
        bad = operand_write_violations(I, epoch, [u, f])
        for name, snap, o in (("measure", snap_u, u), ("factor", snap_f, f)):
            for k, v in snap.items():
                if o.f.get(k) is not v and not (v is None and k in ("Sigma", "ln_det_Sigma", "ln_det_Lambda", "lnZ", "mu")):
                    bad.append(f"{name} operand field {k} rebound by the operation")
        if bad:
            raise Refuted("operands are not left unchanged: " + "; ".join(sorted(set(bad))), anchor)
        info = dict(funcs=funcs_of(I))
        if d:
            info["construct"] = anchor
        return d, info
    uf = "" if op == "*" else f"/full={int(update_full)}"
    return Ob(f"product/{op}/{fkind}/{mkind}/{batch}{uf}", run,
              "ln(result)(x) == ln u_i(x) + ln f_j(x) at component i*R2+j (hadamard: shared / broadcast index); every field of the result carries the component axis; operands unchanged",
              anchor, group="product")


def keyset_ob(prog, fkind, meth, update_full):
    anchor = _override_anchor(prog, fkind, meth)

    def run():
        I = build.new_interp()
        R, Dd = sym("R"), sym("D")
        u = make_measure(I, "warm", R, Dd, "u")
        f = make_factor(I, fkind, R, Dd, "f")
        d = I.call_method(f, meth, [u], dict(update_full=update_full))
        want = {"Lambda", "nu", "ln_beta"} | ({"Sigma", "ln_det_Lambda", "ln_det_Sigma"} if update_full else set())
        if not isinstance(d, dict) or set(d) != want:
            raise Refuted(f"{meth} returns keys {sorted(d) if isinstance(d, dict) else type(d).__name__}, expected {sorted(want)}", anchor)
        return [], dict(funcs=funcs_of(I))
    return Ob(f"keyset/{fkind}/{meth}/full={int(update_full)}", run, "all product overrides return the same key set (consumed by GaussianMeasure(**dict))", anchor, group="keyset")


def reduce_ob(prog, kind, single=False):
    owner, _ = prog.method({"cold": "GaussianMeasure", "warm": "GaussianMeasure", "pdf": "GaussianPDF", "diag": "GaussianDiagMeasure",
                             "diagpdf": "GaussianDiagPDF"}.get(kind, kind), "product")
    anchor = f"{prog.relpath(prog.cls(owner).mod)}::{owner}.product"

    def run():
        I = build.new_interp()
        R, Dd, N = (D(1) if single else sym("R")), sym("D"), sym("N")
        if kind in ("cold", "warm", "pdf", "diag", "diagpdf"):
            o = make_measure(I, kind, R, Dd, "u")
        else:
            o = make_factor(I, kind, R, Dd, "u")
        x = build.points("x", N, Dd)
        ln_o = obj_ln(o, x)
        epoch = len(I.writes)
        res = I.call_method(o, "product", [])
        if res is o:
            raise Refuted("product() returns the operand object itself: a later in-place operation on the result (normalize, update, cache "
                          "population) changes the operand - operands are not left unchanged", anchor)
        got = obj_ln(res, x)
        ref = nf.sum_axis(ln_o, 0, keepdims=True)
        d = nf.diff(got, ref, what="product()")
        bad = operand_write_violations(I, epoch, [o])
        if bad:
            raise Refuted("operand mutated by product(): " + "; ".join(bad), anchor)
        inv = invariant_diffs(res, what="product() result ")
        if inv:
            return d + [("invariant", inv)], dict(funcs=funcs_of(I), construct=anchor)
        return d, dict(funcs=funcs_of(I), construct=anchor)
    return Ob(f"reduce/{kind}" + ("/R=1" if single else ""), run, "ln(product())(x) == sum_i ln u_i(x), single component, operand unchanged, caches of the result consistent", anchor, group="reduce")


def obligations(tier):
    prog = model.load()
    obs = []
    for k in FACTOR_KINDS:
        obs.append(evaluate_ob(k, False))
        obs.append(evaluate_ob(k, True))
    for fk in FACTOR_KINDS:
        for mk in ("diag", "diagpdf"):
            # diagonal receivers: the product is a general GaussianMeasure (an override that stays in the diagonal family is refuted)
            obs.append(product_ob(prog, mk, fk, "*", False, "R1xR2"))
            for uf in (False, True):
                obs.append(product_ob(prog, mk, fk, "multiply", uf, "R1xR2"))
                obs.append(product_ob(prog, mk, fk, "hadamard", uf, "R/R"))
    for fk in FACTOR_KINDS:
        for mk in MEASURE_KINDS:
            obs.append(product_ob(prog, mk, fk, "*", False, "R1xR2"))
            for uf in (False, True):
                obs.append(product_ob(prog, mk, fk, "multiply", uf, "R1xR2"))
                for b in ("R/R", "R/1", "1/R"):
                    obs.append(product_ob(prog, mk, fk, "hadamard", uf, b))
    # one key-set obligation per (factor class, product method) as resolved through the class hierarchy: mixins / pulled-up
    # methods change who defines an implementation, not who has one
    fclasses = [c for c in ("ConjugateFactor", "LowRankFactor", "OneRankFactor", "LinearFactor", "ConstantFactor") if c in prog.classes]
    impls = []
    for c in fclasses:
        for m in ("_multiply_with_measure", "_hadamard_with_measure"):
            if prog.find_method(c, m) is None:
                raise model.AnchorError(f"factor class {c} has no {m}")
            impls.append((c, m))
    if len(impls) < 8:
        raise model.AnchorError(f"only {len(impls)} product implementations resolved (expected >= 8)")
    for c, m in impls:
        for uf in (False, True):
            obs.append(keyset_ob(prog, c, m, uf))
    for k in ("ConjugateFactor", "LowRankFactor", "cold", "warm", "pdf", "diag", "diagpdf"):
        obs.append(reduce_ob(prog, k))
        obs.append(reduce_ob(prog, k, single=True))
    return obs


FLOORS = {"group:product": 240, "group:evaluate": 18, "group:keyset": 16, "group:reduce": 14}
LEVEL = "proof"
EXPLANATION = ("All 8 product implementations (factor.py) reached through GaussianMeasure.__mul__/multiply/hadamard are interpreted "
               "abstractly for every factor kind x measure cache state x update_full x batch configuration; the natural parameters of "
               "the result are compared, as normal forms evaluated at a generic point set x, with the sum of the operands' log-values "
               "in the documented component layout.  Operand immutability = empty write set on operand objects.")

"""C05 - marginals N(mu[d], Sigma[d,d]) and linear images N(W mu + b, W Sigma W')."""
from .. import nf, build, model
from ..dim import D
from ..build import sym
from ..core import Ob, Refuted
from .common import funcs_of

PROP = "C05"
P = "gaussian_toolbox/pdf.py"


def derived_diffs(q, Sref, what, lndet_alternatives=()):
    """precision / log-determinant of the returned density are the ones the constructor derives from exactly the reference
    covariance (equal value numbers) - or, for a precision computed another way, its product with the reference covariance reduces
    to the identity (uniqueness of the inverse) and the log-determinant equals one of the stated alternatives;
    that such a density is N(mu, Sigma) for *every* Sigma is the C02 constructor obligation."""
    Lref, ldref = nf.inverse(Sref)
    dl = nf.diff(q.f["Lambda"], Lref, what=f"{what} Lambda")
    if dl:
        prod = nf.einsum("rab,rbc->rac", q.f["Lambda"], Sref, what="Lambda*Sigma")
        target = nf.add(nf.scale(prod, 0), nf.expand_dims(nf.eye(Sref.shape[-1]), [None]))
        if not nf.diff(prod, target, what=f"{what} Lambda*Sigma"):
            dl = []
    d = [("Lambda",) + tuple(x) for x in dl[:4]]
    dd = nf.diff(q.f["ln_det_Sigma"], ldref, what=f"{what} ln_det_Sigma")
    for alt in lndet_alternatives:
        if dd and not nf.diff(q.f["ln_det_Sigma"], alt, what=f"{what} ln_det_Sigma"):
            dd = []
    d += [("ln_det_Sigma",) + tuple(x) for x in dd[:4]]
    return d


def marginal_ob(cls, R_is_one, single=False):
    """single: one requested coordinate (the size at which a `len(dims) == 1` shortcut would switch on; the generic-size run never enters it)"""
    def run():
        I = build.new_interp()
        R = D(1) if R_is_one else sym("R")
        Dd, Dm = sym("D"), (D(1) if single else sym("Dm"))
        diag = cls == "GaussianDiagPDF"
        p = build.pdf(I, R, Dd, "p", cls=cls, args="Sigma" if diag else "full", diag=diag)
        dims = build.indices("dims", Dm, distinct=True)
        q = I.call_method(p, "get_marginal", [dims])
        if q.cls != cls:
            raise Refuted(f"get_marginal of a {cls} returns a {q.cls}", f"{P}::{cls}.get_marginal")
        S, mu = p.f["Sigma"], p.f["mu"]
        Sref = nf.gather_axis(nf.gather_axis(S, 1, "dims", Dm), 2, "dims", Dm)     # P Sigma P' with ONE selection P
        mref = nf.gather_axis(mu, 1, "dims", Dm)
        d = [("Sigma",) + tuple(x) for x in nf.diff(q.f["Sigma"], Sref, what="marginal Sigma")[:5]]
        d += [("mu",) + tuple(x) for x in nf.diff(q.f["mu"], mref, what="marginal mu")[:5]]
        d += derived_diffs(q, Sref, "marginal")
        return d, dict(funcs=funcs_of(I))
    return Ob(f"marginal/{cls}/R={'1' if R_is_one else 'R'}" + ("/single-coordinate" if single else ""), run,
              "get_marginal(d) == N(P mu, P Sigma P') with the same selection P on rows, columns and mean (any order / subset); density derived by the constructor",
              f"{P}::{cls}.get_marginal", group="marginal")


def all_coordinates_ob(cls):
    """all coordinates in arbitrary order (a permutation): the result must be the same density with permuted coordinates."""
    def run():
        from ..interp import IdxArr
        from .c02 import coherent_diffs
        I = build.new_interp()
        R, Dd = sym("R"), sym("D")
        diag = cls == "GaussianDiagPDF"
        p = build.pdf(I, R, Dd, "p", cls=cls, args="Sigma" if diag else "full", diag=diag)
        dims = IdxArr("perm", Dd, kind="perm")
        q = I.call_method(p, "get_marginal", [dims])
        S, mu = p.f["Sigma"], p.f["mu"]
        Sref = nf.gather_axis(nf.gather_axis(S, 1, "perm", Dd, perm=True), 2, "perm", Dd, perm=True)
        mref = nf.gather_axis(mu, 1, "perm", Dd, perm=True)
        d = [("Sigma",) + tuple(x) for x in nf.diff(q.f["Sigma"], Sref, what="permuted Sigma")[:4]]
        d += [("mu",) + tuple(x) for x in nf.diff(q.f["mu"], mref, what="permuted mu")[:4]]
        d += coherent_diffs(q, "get_marginal(all coordinates): ")
        return d, dict(funcs=funcs_of(I))
    return Ob(f"marginal/{cls}/all-coordinates", run, "get_marginal(permutation of all coordinates) == the density with permuted coordinates; its precision / log-det belong to the permuted covariance",
              f"{P}::{cls}.get_marginal", group="marginal")


def linsum_ob(with_b, R_is_one, square=False):
    def run():
        I = build.new_interp()
        R = D(1) if R_is_one else sym("R")
        Dd = sym("D")
        Ds = Dd if square else sym("Ds")          # square: a (generic, non-symmetric) change of variables W [R, D, D]
        p = build.pdf(I, R, Dd, "p")
        W = nf.atom("W", [R, Ds, Dd])
        kw = {}
        if with_b:
            b = nf.atom("b", [R, Ds])
            kw["b"] = b
        q = I.call_method(p, "get_density_of_linear_sum", [W], kw)
        S, mu = p.f["Sigma"], p.f["mu"]
        Sref = nf.einsum("rsd,rde,rte->rst", W, S, W)
        mref = nf.einsum("rsd,rd->rs", W, mu)
        if with_b:
            mref = nf.add(mref, b)
        d = [("Sigma",) + tuple(x) for x in nf.diff(q.f["Sigma"], Sref, what="linear-sum Sigma")[:5]]
        d += [("mu",) + tuple(x) for x in nf.diff(q.f["mu"], mref, what="linear-sum mu")[:5]]
        alts = ()
        if square:
            # determinant multiplicativity for a square map (stated axiom):  ln det(W S W') = ln det S + 2 ln |det W|
            alts = (nf.add(p.f["ln_det_Sigma"], nf.scale(nf.logdet(W), 2)),)
        d += derived_diffs(q, Sref, "linear sum", alts)
        return d, dict(funcs=funcs_of(I))
    return Ob(f"linsum/b={int(with_b)}/R={'1' if R_is_one else 'R'}" + ("/square" if square else ""), run, "get_density_of_linear_sum(W,b) == N(W mu + b, W Sigma W'), b optional, Dsum != D generic",
              f"{P}::GaussianPDF.get_density_of_linear_sum", group="linsum")


def obligations(tier):
    obs = []
    for cls in ("GaussianPDF", "GaussianDiagPDF"):
        for r1 in (False, True):
            obs.append(marginal_ob(cls, r1))
        obs.append(marginal_ob(cls, False, single=True))
        obs.append(all_coordinates_ob(cls))
    for wb in (False, True):
        for r1 in (False, True):
            obs.append(linsum_ob(wb, r1))
    obs.append(linsum_ob(True, False, square=True))
    from .common import endpoint_contiguity_ob
    obs.append(endpoint_contiguity_ob(model.load(), "indexlist"))
    return obs


FLOORS = {"group:marginal": 8, "group:linsum": 5, "group:indexlist": 1}
LEVEL = "proof"
EXPLANATION = "get_marginal (full, diagonal) and get_density_of_linear_sum interpreted on generic tensors; compared with (P mu, P Sigma P') / (W mu + b, W Sigma W') and with the Normal log-density of the result."

"""C06 - conditioning on coordinates (information form) and conditioning a conditional on a value."""
from .. import nf, build, model
from ..dim import D
from ..build import sym
from ..core import Ob, Refuted
from .common import funcs_of
from . import drivers

PROP = "C06"
P = "gaussian_toolbox/pdf.py"
C = "gaussian_toolbox/conditional.py"


def cond_reference(p, a_name, Da, b_name, Db):
    Lam, mu = p.f["Lambda"], p.f["mu"]
    g = nf.gather_axis
    Laa = g(g(Lam, 1, a_name, Da), 2, a_name, Da)
    Lab = g(g(Lam, 1, a_name, Da), 2, b_name, Db)
    Saa, ldLaa = nf.inverse(Laa)
    M = nf.neg(nf.einsum("rab,rbc->rac", Saa, Lab))
    b = nf.add(g(mu, 1, a_name, Da), nf.einsum("rab,rb->ra", M, g(mu, 1, b_name, Db)), -1)
    return dict(M=M, b=b, Sigma=Saa, Lambda=Laa, ln_det_Sigma=nf.neg(ldLaa))


def condition_on_ob(explicit, R_is_one, special=None):
    """special: None (generic sizes) | 'Db=1' (condition on a single coordinate) | 'Da=1' (a single coordinate remains): sizes at which
    a shortcut of the code may switch on (`len(dim) == 1`), which the generic-size run never enters"""
    meth = "condition_on_explicit" if explicit else "condition_on"

    def run():
        I = build.new_interp()
        R = D(1) if R_is_one else sym("R")
        Db = D(1) if special == "Db=1" else sym("Db")
        Dd = Db + 1 if special == "Da=1" else sym("D")
        p = build.pdf(I, R, Dd, "p")
        dim_b = build.indices("dim_b", Db, distinct=True)
        if explicit:
            Da = Dd - Db                  # contract: the two lists partition the coordinates
            dim_a = build.indices("dim_a", Da, distinct=True)
            c = I.call_method(p, meth, [dim_b, dim_a])
            a_name = "dim_a"
        else:
            Da = Dd - Db
            c = I.call_method(p, meth, [dim_b])
            a_name = f"compl(dim_b|{Dd})"      # ascending complement: contract of setxor1d(arange(D), dim_b)
        if c.cls != "ConditionalGaussianPDF":
            raise Refuted(f"{meth} returns {c.cls}", f"{P}::GaussianPDF.{meth}")
        ref = cond_reference(p, a_name, Da, "dim_b", Db)
        d = []
        for fld in ("M", "b", "Sigma", "Lambda", "ln_det_Sigma"):
            d += [(fld,) + tuple(x) for x in nf.diff(c.f[fld], ref[fld], what=f"{meth} {fld}")[:5]]
        return d, dict(funcs=funcs_of(I))
    return Ob(f"{meth}/R={'1' if R_is_one else 'R'}" + (f"/{special}" if special else ""), run,
              "p(x_a|x_b): Lambda_aa, Sigma = Inv(Lambda_aa), M = -Sigma Lambda_ab, b = mu_a - M mu_b, ln det = -LnDet(Lambda_aa); a = ascending complement (or the caller's list)",
              f"{P}::GaussianPDF.{meth}", group="condition_on")


def condition_on_x_ob(prog, cls, ctx):
    owner, _ = prog.method(cls, "condition_on_x")
    anchor = f"{C}::{owner}.condition_on_x"

    def run():
        I = build.new_interp()
        Rc = sym("Rc") if ctx == "n" else D(1)
        Dy, N = sym("Dy"), sym("N")
        Dx = Dy if drivers.is_identity(cls) else sym("Dx")
        c = build.conditional(I, Rc, Dy, Dx, "c", cls=cls)
        x = build.points("x", N, Dx)
        q = I.call_method(c, "condition_on_x", [x])
        q2 = I.call_method(c, "__call__", [x])
        M, b, S, L, lds = drivers.cond_params(c, Rc, Dy, Dx)
        mean = nf.einsum("cyx,nx->cny", M, x)
        if b is not None:
            mean = nf.add(mean, nf.expand_dims(b, ["k", None]))
        R = Rc * N
        tile = lambda v: nf.tile(nf.expand_dims(v, ["k", None]), [1, N] + [1] * (len(v.axes) - 1))
        ref = dict(mu=drivers.flat2(_mat(mean, Rc, N)), Sigma=drivers.flat2(tile(S)), Lambda=drivers.flat2(tile(L)), ln_det_Sigma=drivers.flat2(tile(lds), 2))
        d = []
        for fld in ("mu", "Sigma", "Lambda", "ln_det_Sigma"):
            d += [(fld,) + tuple(z) for z in nf.diff(q.f[fld], ref[fld], what=f"condition_on_x {fld}")[:5]]
            d += [("__call__:" + fld,) + tuple(z) for z in nf.diff(q2.f[fld], ref[fld], what=f"__call__ {fld}")[:2]]
        return d, dict(funcs=funcs_of(I), construct=anchor)
    return Ob(f"condition_on_x/{cls}/R={ctx}", run, "cond(x) == N(M x_n + b, Sigma) at component r*N+n, precision and log-det replicated", anchor, group="condition_on_x")


def _mat(v, Rc, N):
    from .c07 import _bc
    return _bc(v, Rc, N)


def obligations(tier):
    prog = model.load()
    obs = []
    for ex in (False, True):
        for r1 in (False, True):
            obs.append(condition_on_ob(ex, r1))
            if not r1:
                obs.append(condition_on_ob(ex, r1, "Db=1"))
                obs.append(condition_on_ob(ex, r1, "Da=1"))
    for cls in drivers.COND_CLASSES:
        for ctx in ("1", "n"):
            obs.append(condition_on_x_ob(prog, cls, ctx))
    from .common import endpoint_contiguity_ob
    obs.append(endpoint_contiguity_ob(model.load(), "indexlist"))
    return obs


FLOORS = {"group:condition_on": 8, "group:condition_on_x": 8, "group:indexlist": 1}
LEVEL = "proof"
EXPLANATION = "condition_on / condition_on_explicit against the information-form conditioning formulas with generic index sets; condition_on_x of every conditional class against N(Mx+b, Sigma) in layout r*N+n."

"""Abstract NN-controlled conditional: the control network is an opaque function u -> [R, Dy*(Dx+1)]."""
from .. import nf, build
from ..nf import Val
from ..dim import D
from ..build import sym
from ..interp import PyCallable


def control_func(Dy, Dx):
    T = Dy * Dx + Dy

    def f(u):
        nt = nf.normalize(u)
        if not nt:
            tag = "0"
        elif len(nt) == 1 and len(nt[0][1].f) == 1 and nt[0][0].is_one():
            tag = nt[0][1].f[0][0]
        else:
            raise nf.Undecided("control function applied to a derived input")
        rows = u.shape[0]
        return nf.atom(f"ctrl({tag})", [rows, T], owner=tag if tag != "0" else None)
    return PyCallable(f, "control_func")


def make_nn(I, name="c"):
    Dy, Dx, Du = sym("Dy"), sym("Dx"), sym("Du")
    kw = dict(Sigma=nf.atom(f"Sigma({name})", [1, Dy, Dy], sym=True), num_cond_dim=Dx, num_control_dim=Du, control_func=control_func(Dy, Dx))
    c = I.construct("NNControlGaussianConditional", kw)
    return c, (Dy, Dx, Du)


def Mb_reference(uval, Dy, Dx):
    """documented split of the control output: first Dy*Dx entries row-major (Dy, Dx) = M(u); remaining Dy = b(u)."""
    out = control_func(Dy, Dx).fn(uval)
    Ru = uval.shape[0]
    Mflat = nf.slice_axis(out, 1, 0, Dy * Dx)
    M = nf.reshape(Mflat, [Ru, Dy, Dx])
    b = nf.slice_axis(out, 1, Dy * Dx, Dy * Dx + Dy)
    return M, b

"""C17 (partial) - heteroscedastic conditionals: coherence of p(y|x) (mean, covariance, precision, log-determinant).
The lower-bound clauses (inequalities, tightness limits, fixed-point iteration) are NOT decided."""
from .. import nf, build, model
from ..build import sym
from ..core import Ob
from .common import funcs_of
from .approx import make_approx
from .c16 import hetero_condition_ob
from .c02 import coherent_diffs

PROP = "C17"
A_ = "gaussian_toolbox/approximate_conditional.py"
CLASSES = ["HeteroscedasticExpConditional", "HeteroscedasticCoshM1Conditional", "HeteroscedasticHeavisideConditional", "HeteroscedasticReLUConditional"]


def coherence_ob(cls):
    def run():
        I = build.new_interp()
        c = make_approx(I, cls, "c")
        q = I.call_method(c, "condition_on_x", [build.points("xs", sym("N"), sym("Dx"))])
        return coherent_diffs(q, f"{cls}.condition_on_x: "), dict(funcs=funcs_of(I))
    return Ob(f"coherent/{cls}", run, "precision and log-determinant returned by condition_on_x are the inverse / log-determinant of the returned covariance (generic Da >= Dy)",
              f"{A_}::HeteroscedasticConditional.get_conditional_cov", group="coherent")


def step_logdet_ob():
    """step link: the log-determinant term of integrate_log_conditional_y is exact,
       E_n[ln det Sigma_y(x)] = ln det AA' + ln 2 * sum_k P_n(h_k >= 0),  P_n(h_k >= 0) = Phi(m_kn / s_kn)
    for a batch of N prior components (one per observation), each with its own (mu_n, Sigma_n)."""
    cls = "HeteroscedasticHeavisideConditional"

    def run():
        from ..nf import Val
        from ..dim import LOG2
        from ..intrinsics import elementwise_inf
        nf.ST.generic_nonzero = True
        I = build.new_interp()
        c = make_approx(I, cls, "c")
        N, Dx = sym("N"), sym("Dx")
        px = build.pdf(I, N, Dx, "px")
        got = I.call_method(c, "get_lb_log_det", [px])
        if not isinstance(got, Val) or len(got.axes) != 1 or got.shape[0] != N:
            from ..core import Refuted
            raise Refuted(f"get_lb_log_det returns shape {getattr(got, 'shape', None)} for a prior with N components (expected [N]: one value per prior component)",
                          f"{A_}::{cls}.get_lb_log_det")
        W = c.f["W"]
        w0 = nf.slice_axis(W, 1, 0, 1)
        w0 = Val([w0.axes[0]], w0.terms)
        w = nf.slice_axis(W, 1, 1, W.shape[1])
        mx, Sx = px.f["mu"], px.f["Sigma"]
        lin = nf.add(nf.einsum("kx,nx->kn", w, mx), nf.expand_dims(w0, ["k", None]))
        s2 = nf.einsum("kx,nxz,kz->kn", w, Sx, w)
        z = nf.mul(lin, nf.elementwise("Sqrt", nf.elementwise("Recip", s2)))
        Ph = elementwise_inf("Phi", z)
        lds = c.f["ln_det_Sigma"]
        ref = nf.add(nf.scale(nf.sum_axis(Ph, 0, False), LOG2), nf.expand_dims(Val([], lds.terms) if not lds.axes or lds.shape[0].is_one() and not lds.axes[0] else lds, []))
        d = nf.diff(got, ref, what="E[ln det Sigma_y(x)] (step link)")
        return d, dict(funcs=funcs_of(I))
    return Ob(f"lb-logdet/{cls}", run,
              "step link: get_lb_log_det(p_x)[n] == ln det AA' + ln 2 * sum_k Phi(m_kn / s_kn) with the moments of prior component n (exact expectation; one value per prior component)",
              f"{A_}::{cls}.get_lb_log_det", group="lb-logdet")


def obligations(tier):
    obs = []
    for cls in CLASSES:
        ob = hetero_condition_ob(cls)
        ob.key = "moments-of-" + ob.key
        ob.group = "conditional"
        obs.append(ob)
        obs.append(coherence_ob(cls))
    obs.append(step_logdet_ob())
    return obs


FLOORS = {"group:conditional": 4, "group:coherent": 4}
LEVEL = "other"
EXPLANATION = ("PARTIAL (first sentence of the property only): for all four link functions, condition_on_x has mean Mx+b and covariance AA' + A_k diag(link(Wx+w0)) A_k' "
               "(proved), and the coherence of the returned precision / log-determinant with that covariance is decided (refuted for generic Da >= Dy: known finding F10). "
               "NOT decided: the lower-bound inequalities, equality for the step link, tightness in the homoscedastic limit (inequalities / limits / fixed-point iteration).")

"""C17 (partial) - heteroscedastic conditionals: coherence of p(y|x) (mean, covariance, precision, log-determinant).
The lower-bound clauses (inequalities, tightness limits, fixed-point iteration) are NOT decided."""
from .. import nf, build, model
from ..build import sym
from ..core import Ob
from .common import funcs_of
from .approx import make_approx
from .c16 import hetero_condition_ob
from .c02 import coherent_diffs

PROP = "C17"
A_ = "gaussian_toolbox/approximate_conditional.py"
CLASSES = ["HeteroscedasticExpConditional", "HeteroscedasticCoshM1Conditional", "HeteroscedasticHeavisideConditional", "HeteroscedasticReLUConditional"]


def coherence_ob(cls):
    def run():
        I = build.new_interp()
        c = make_approx(I, cls, "c")
        q = I.call_method(c, "condition_on_x", [build.points("xs", sym("N"), sym("Dx"))])
        return coherent_diffs(q, f"{cls}.condition_on_x: "), dict(funcs=funcs_of(I))
    return Ob(f"coherent/{cls}", run, "precision and log-determinant returned by condition_on_x are the inverse / log-determinant of the returned covariance (generic Da >= Dy)",
              f"{A_}::HeteroscedasticConditional.get_conditional_cov", group="coherent")


def step_logdet_ob():
    """step link: the log-determinant term of integrate_log_conditional_y is exact,
       E_n[ln det Sigma_y(x)] = ln det AA' + ln 2 * sum_k P_n(h_k >= 0),  P_n(h_k >= 0) = Phi(m_kn / s_kn)
    for a batch of N prior components (one per observation), each with its own (mu_n, Sigma_n)."""
    cls = "HeteroscedasticHeavisideConditional"

    def run():
        from ..nf import Val
        from ..dim import LOG2
        from ..intrinsics import elementwise_inf
        nf.ST.generic_nonzero = True
        I = build.new_interp()
        c = make_approx(I, cls, "c")
        N, Dx = sym("N"), sym("Dx")
        px = build.pdf(I, N, Dx, "px")
        got = I.call_method(c, "get_lb_log_det", [px])
        if not isinstance(got, Val) or len(got.axes) != 1 or got.shape[0] != N:
            from ..core import Refuted
            raise Refuted(f"get_lb_log_det returns shape {getattr(got, 'shape', None)} for a prior with N components (expected [N]: one value per prior component)",
                          f"{A_}::{cls}.get_lb_log_det")
        W = c.f["W"]
        w0 = nf.slice_axis(W, 1, 0, 1)
        w0 = Val([w0.axes[0]], w0.terms)
        w = nf.slice_axis(W, 1, 1, W.shape[1])
        mx, Sx = px.f["mu"], px.f["Sigma"]
        lin = nf.add(nf.einsum("kx,nx->kn", w, mx), nf.expand_dims(w0, ["k", None]))
        s2 = nf.einsum("kx,nxz,kz->kn", w, Sx, w)
        z = nf.mul(lin, nf.elementwise("Sqrt", nf.elementwise("Recip", s2)))
        Ph = elementwise_inf("Phi", z)
        lds = c.f["ln_det_Sigma"]
        ref = nf.add(nf.scale(nf.sum_axis(Ph, 0, False), LOG2), nf.expand_dims(Val([], lds.terms) if not lds.axes or lds.shape[0].is_one() and not lds.axes[0] else lds, []))
        d = nf.diff(got, ref, what="E[ln det Sigma_y(x)] (step link)")
        return d, dict(funcs=funcs_of(I))
    return Ob(f"lb-logdet/{cls}", run,
              "step link: get_lb_log_det(p_x)[n] == ln det AA' + ln 2 * sum_k Phi(m_kn / s_kn) with the moments of prior component n (exact expectation; one value per prior component)",
              f"{A_}::{cls}.get_lb_log_det", group="lb-logdet")


def step_quadratic_ob():
    """step link, scalar input (the `Dx == 1` branch): the heteroscedastic part of the quadratic term of integrate_log_conditional_y is
    exact,  1/2 E_n[ 1(h >= 0) (a'(y_n - M x - b))^2 ],  h = w x + w0,  x ~ N(mu_n, s_n^2).
    Reference in the h-domain with the textbook one-sided truncated moments  Z = Phi(z), E[h;h>=0] = m_h Phi(z) + s_h phi(z),
    E[h^2;h>=0] = (m_h^2 + s_h^2) Phi(z) + m_h s_h phi(z),  z = m_h / s_h,  and x = (h - w0) / w."""
    cls = "HeteroscedasticHeavisideConditional"

    def run():
        from ..nf import Val
        from ..dim import D
        from ..intrinsics import elementwise_inf
        nf.ST.generic_nonzero = True
        I = build.new_interp()
        Dy, Dk, Da, N = sym("Dy"), sym("Dk"), sym("Da"), sym("N")
        Dx = D(1)
        c = I.construct(cls, dict(M=nf.atom("M(c)", [1, Dy, Dx]), b=nf.atom("b(c)", [1, Dy]), A=nf.atom("A(c)", [1, Dy, Da]), W=nf.atom("W(c)", [Dk, Dx + 1])))
        px = build.pdf(I, N, Dx, "px")
        y = build.points("y", N, Dy)
        Wi, ai = nf.atom("W_i", [Dx + 1]), nf.atom("a_i", [Dy])
        got = I.call_method(c, "get_lb_heteroscedastic_term_i", [px, y, Wi, ai])
        if not isinstance(got, Val) or [str(x) for x in got.shape] != ["1", str(N)]:
            from ..core import Refuted
            raise Refuted(f"get_lb_heteroscedastic_term_i returns shape {getattr(got, 'shape', None)} (expected [1, N])", f"{A_}::{cls}.get_lb_heteroscedastic_term_i")
        w0 = Val([], nf.slice_axis(Wi, 0, 0, 1).terms)
        w = Val([], nf.slice_axis(Wi, 0, 1, 2).terms)
        mu = Val(px.f["mu"].axes[:1], px.f["mu"].terms)
        S = Val(px.f["Sigma"].axes[:1], px.f["Sigma"].terms)
        M1 = Val([c.f["M"].axes[1]], c.f["M"].terms)
        b1 = Val([c.f["b"].axes[1]], c.f["b"].terms)
        m = nf.einsum("y,y->", ai, M1)
        c0 = nf.add(nf.einsum("y,ny->n", ai, y), nf.einsum("y,y->", ai, b1), -1)
        mh = nf.add(nf.mul(w, mu), w0)
        sh2 = nf.mul(nf.mul(w, w), S)
        sh = nf.elementwise("Sqrt", sh2)
        z = nf.mul(mh, nf.elementwise("Sqrt", nf.elementwise("Recip", sh2)))
        Ph, ph = elementwise_inf("Phi", z), elementwise_inf("phi", z)
        Eh = nf.add(nf.mul(mh, Ph), nf.mul(sh, ph))
        Eh2 = nf.add(nf.mul(nf.add(nf.mul(mh, mh), sh2), Ph), nf.mul(nf.mul(mh, sh), ph))
        fr = nf.mul(m, nf.elementwise("Recip", w))
        C = nf.add(c0, nf.mul(fr, w0))
        ref = nf.scale(nf.add(nf.add(nf.mul(nf.mul(C, C), Ph), nf.scale(nf.mul(nf.mul(C, fr), Eh), -2)), nf.mul(nf.mul(fr, fr), Eh2)), D(1) / 2)
        g = Val(got.axes[1:], got.terms)
        d = nf.diff(g, ref, what="1/2 E[1(h>=0) (a'(y - Mx - b))^2]")
        if d and nf.zero_mod_recip(nf.add(g, ref, -1)):
            d = []
        return d, dict(funcs=funcs_of(I))
    return Ob(f"lb-quadratic/{cls}/Dx=1", run,
              "step link, Dx = 1: get_lb_heteroscedastic_term_i == 1/2 E_n[1(h>=0) (a'(y_n - Mx - b))^2] (exact; truncated-normal moments of h = w x + w0, x = (h - w0)/w)",
              f"{A_}::{cls}.get_lb_heteroscedastic_term_i", group="lb-quadratic")


def obligations(tier):
    obs = []
    for cls in CLASSES:
        ob = hetero_condition_ob(cls)
        ob.key = "moments-of-" + ob.key
        ob.group = "conditional"
        obs.append(ob)
        obs.append(coherence_ob(cls))
    obs.append(step_logdet_ob())
    obs.append(step_quadratic_ob())
    return obs


FLOORS = {"group:conditional": 4, "group:coherent": 4}
LEVEL = "other"
EXPLANATION = ("PARTIAL (first sentence of the property only): for all four link functions, condition_on_x has mean Mx+b and covariance AA' + A_k diag(link(Wx+w0)) A_k' "
               "(proved), and the coherence of the returned precision / log-determinant with that covariance is decided (refuted for generic Da >= Dy: known finding F10). "
               "NOT decided: the lower-bound inequalities, equality for the step link, tightness in the homoscedastic limit (inequalities / limits / fixed-point iteration).")

"""C17 (partial) - heteroscedastic conditionals: coherence of p(y|x) (mean, covariance, precision, log-determinant).
The lower-bound clauses (inequalities, tightness limits, fixed-point iteration) are NOT decided."""
from .. import nf, build, model
from ..build import sym
from ..core import Ob
from .common import funcs_of
from .approx import make_approx
from .c16 import hetero_condition_ob
from .c02 import coherent_diffs

PROP = "C17"
A_ = "gaussian_toolbox/approximate_conditional.py"
CLASSES = ["HeteroscedasticExpConditional", "HeteroscedasticCoshM1Conditional", "HeteroscedasticHeavisideConditional", "HeteroscedasticReLUConditional"]


def coherence_ob(cls):
    def run():
        I = build.new_interp()
        c = make_approx(I, cls, "c")
        q = I.call_method(c, "condition_on_x", [build.points("xs", sym("N"), sym("Dx"))])
        return coherent_diffs(q, f"{cls}.condition_on_x: "), dict(funcs=funcs_of(I))
    return Ob(f"coherent/{cls}", run, "precision and log-determinant returned by condition_on_x are the inverse / log-determinant of the returned covariance (generic Da >= Dy)",
              f"{A_}::HeteroscedasticConditional.get_conditional_cov", group="coherent")


def obligations(tier):
    obs = []
    for cls in CLASSES:
        ob = hetero_condition_ob(cls)
        ob.key = "moments-of-" + ob.key
        ob.group = "conditional"
        obs.append(ob)
        obs.append(coherence_ob(cls))
    return obs


FLOORS = {"group:conditional": 4, "group:coherent": 4}
LEVEL = "other"
EXPLANATION = ("PARTIAL (first sentence of the property only): for all four link functions, condition_on_x has mean Mx+b and covariance AA' + A_k diag(link(Wx+w0)) A_k' "
               "(proved), and the coherence of the returned precision / log-determinant with that covariance is decided (refuted for generic Da >= Dy: known finding F10). "
               "NOT decided: the lower-bound inequalities, equality for the step link, tightness in the homoscedastic limit (inequalities / limits / fixed-point iteration).")

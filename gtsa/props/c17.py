"""C17 (partial) - heteroscedastic conditionals: coherence of p(y|x) (mean, covariance, precision, log-determinant).
The lower-bound clauses (inequalities, tightness limits, fixed-point iteration) are NOT decided."""
from .. import nf, build, model
from ..build import sym
from ..core import Ob, Refuted
from ..nf import Undecided
from .common import funcs_of
from .approx import make_approx
from .c16 import hetero_condition_ob, link_ob
from .c02 import coherent_diffs

PROP = "C17"
A_ = "gaussian_toolbox/approximate_conditional.py"
CLASSES = ["HeteroscedasticExpConditional", "HeteroscedasticCoshM1Conditional", "HeteroscedasticHeavisideConditional", "HeteroscedasticReLUConditional"]


def coherence_ob(cls):
    def run():
        I = build.new_interp()
        c = make_approx(I, cls, "c")
        q = I.call_method(c, "condition_on_x", [build.points("xs", sym("N"), sym("Dx"))])
        return coherent_diffs(q, f"{cls}.condition_on_x: "), dict(funcs=funcs_of(I))
    return Ob(f"coherent/{cls}", run, "precision and log-determinant returned by condition_on_x are the inverse / log-determinant of the returned covariance (generic Da >= Dy)",
              f"{A_}::HeteroscedasticConditional.get_conditional_cov", group="coherent")


def step_logdet_ob():
    """step link: the log-determinant term of integrate_log_conditional_y is exact,
       E_n[ln det Sigma_y(x)] = ln det AA' + ln 2 * sum_k P_n(h_k >= 0),  P_n(h_k >= 0) = Phi(m_kn / s_kn)
    for a batch of N prior components (one per observation), each with its own (mu_n, Sigma_n)."""
    cls = "HeteroscedasticHeavisideConditional"

    def run():
        from ..nf import Val
        from ..dim import LOG2
        from ..intrinsics import elementwise_inf
        nf.ST.generic_nonzero = True
        I = build.new_interp()
        c = make_approx(I, cls, "c")
        N, Dx = sym("N"), sym("Dx")
        px = build.pdf(I, N, Dx, "px")
        got = I.call_method(c, "get_lb_log_det", [px])
        if not isinstance(got, Val) or len(got.axes) != 1 or got.shape[0] != N:
            from ..core import Refuted
            raise Refuted(f"get_lb_log_det returns shape {getattr(got, 'shape', None)} for a prior with N components (expected [N]: one value per prior component)",
                          f"{A_}::{cls}.get_lb_log_det")
        W = c.f["W"]
        w0 = nf.slice_axis(W, 1, 0, 1)
        w0 = Val([w0.axes[0]], w0.terms)
        w = nf.slice_axis(W, 1, 1, W.shape[1])
        mx, Sx = px.f["mu"], px.f["Sigma"]
        lin = nf.add(nf.einsum("kx,nx->kn", w, mx), nf.expand_dims(w0, ["k", None]))
        s2 = nf.einsum("kx,nxz,kz->kn", w, Sx, w)
        z = nf.mul(lin, nf.elementwise("Sqrt", nf.elementwise("Recip", s2)))
        Ph = elementwise_inf("Phi", z)
        lds = c.f["ln_det_Sigma"]
        ref = nf.add(nf.scale(nf.sum_axis(Ph, 0, False), LOG2), nf.expand_dims(Val([], lds.terms) if not lds.axes or lds.shape[0].is_one() and not lds.axes[0] else lds, []))
        d = nf.diff(got, ref, what="E[ln det Sigma_y(x)] (step link)")
        return d, dict(funcs=funcs_of(I))
    return Ob(f"lb-logdet/{cls}", run,
              "step link: get_lb_log_det(p_x)[n] == ln det AA' + ln 2 * sum_k Phi(m_kn / s_kn) with the moments of prior component n (exact expectation; one value per prior component)",
              f"{A_}::{cls}.get_lb_log_det", group="lb-logdet")


def step_quadratic_ob():
    """step link, scalar input (the `Dx == 1` branch): the heteroscedastic part of the quadratic term of integrate_log_conditional_y is
    exact,  1/2 E_n[ 1(h >= 0) (a'(y_n - M x - b))^2 ],  h = w x + w0,  x ~ N(mu_n, s_n^2).
    Reference in the h-domain with the textbook one-sided truncated moments  Z = Phi(z), E[h;h>=0] = m_h Phi(z) + s_h phi(z),
    E[h^2;h>=0] = (m_h^2 + s_h^2) Phi(z) + m_h s_h phi(z),  z = m_h / s_h,  and x = (h - w0) / w."""
    cls = "HeteroscedasticHeavisideConditional"

    def run():
        from ..nf import Val
        from ..dim import D
        from ..intrinsics import elementwise_inf
        nf.ST.generic_nonzero = True
        I = build.new_interp()
        Dy, Dk, Da, N = sym("Dy"), sym("Dk"), sym("Da"), sym("N")
        Dx = D(1)
        c = I.construct(cls, dict(M=nf.atom("M(c)", [1, Dy, Dx]), b=nf.atom("b(c)", [1, Dy]), A=nf.atom("A(c)", [1, Dy, Da]), W=nf.atom("W(c)", [Dk, Dx + 1])))
        px = build.pdf(I, N, Dx, "px")
        y = build.points("y", N, Dy)
        Wi, ai = nf.atom("W_i", [Dx + 1]), nf.atom("a_i", [Dy])
        got = I.call_method(c, "get_lb_heteroscedastic_term_i", [px, y, Wi, ai])
        if not isinstance(got, Val) or [str(x) for x in got.shape] != ["1", str(N)]:
            from ..core import Refuted
            raise Refuted(f"get_lb_heteroscedastic_term_i returns shape {getattr(got, 'shape', None)} (expected [1, N])", f"{A_}::{cls}.get_lb_heteroscedastic_term_i")
        w0 = Val([], nf.slice_axis(Wi, 0, 0, 1).terms)
        w = Val([], nf.slice_axis(Wi, 0, 1, 2).terms)
        mu = Val(px.f["mu"].axes[:1], px.f["mu"].terms)
        S = Val(px.f["Sigma"].axes[:1], px.f["Sigma"].terms)
        M1 = Val([c.f["M"].axes[1]], c.f["M"].terms)
        b1 = Val([c.f["b"].axes[1]], c.f["b"].terms)
        m = nf.einsum("y,y->", ai, M1)
        c0 = nf.add(nf.einsum("y,ny->n", ai, y), nf.einsum("y,y->", ai, b1), -1)
        mh = nf.add(nf.mul(w, mu), w0)
        sh2 = nf.mul(nf.mul(w, w), S)
        sh = nf.elementwise("Sqrt", sh2)
        z = nf.mul(mh, nf.elementwise("Sqrt", nf.elementwise("Recip", sh2)))
        Ph, ph = elementwise_inf("Phi", z), elementwise_inf("phi", z)
        Eh = nf.add(nf.mul(mh, Ph), nf.mul(sh, ph))
        Eh2 = nf.add(nf.mul(nf.add(nf.mul(mh, mh), sh2), Ph), nf.mul(nf.mul(mh, sh), ph))
        fr = nf.mul(m, nf.elementwise("Recip", w))
        C = nf.add(c0, nf.mul(fr, w0))
        ref = nf.scale(nf.add(nf.add(nf.mul(nf.mul(C, C), Ph), nf.scale(nf.mul(nf.mul(C, fr), Eh), -2)), nf.mul(nf.mul(fr, fr), Eh2)), D(1) / 2)
        g = Val(got.axes[1:], got.terms)
        d = nf.diff(g, ref, what="1/2 E[1(h>=0) (a'(y - Mx - b))^2]")
        if d and nf.zero_mod_recip(nf.add(g, ref, -1)):
            d = []
        return d, dict(funcs=funcs_of(I))
    return Ob(f"lb-quadratic/{cls}/Dx=1", run,
              "step link, Dx = 1: get_lb_heteroscedastic_term_i == 1/2 E_n[1(h>=0) (a'(y_n - Mx - b))^2] (exact; truncated-normal moments of h = w x + w0, x = (h - w0)/w)",
              f"{A_}::{cls}.get_lb_heteroscedastic_term_i", group="lb-quadratic")


def step_quadratic_general_ob():
    """step link, Dx > 1: the heteroscedastic part of the quadratic term through the joint of (g, h), g = a'(y - Mx - b), h = w'x + w0:
       1/2 E[1(h>=0) g^2] = 1/2 [ Z (c0^2 + V) + 2 c0 c1 E[h;h>=0] + c1^2 E[h^2;h>=0] ],  c1 = S_gh / S_hh, c0 = m_g - c1 m_h,
       V = S_gg - S_gh^2 / S_hh   (conditional moments of g given h), one-sided truncated moments of h as in the scalar case.
    The library goes through get_density_of_linear_sum, get_marginal, condition_on_explicit of a 2-dimensional joint (closed-form 2 x 2
    inverse) and the truncated-measure integrals."""
    cls = "HeteroscedasticHeavisideConditional"

    def run():
        from ..nf import Val
        from ..dim import D
        from ..intrinsics import elementwise_inf
        nf.ST.generic_nonzero = True
        I = build.new_interp(facts={("lt", "1", "Dx"): True, ("le", "Dx", "1"): False})
        Dy, Dk, Da, N, Dx = sym("Dy"), sym("Dk"), sym("Da"), sym("N"), sym("Dx")
        c = I.construct(cls, dict(M=nf.atom("M(c)", [1, Dy, Dx]), b=nf.atom("b(c)", [1, Dy]), A=nf.atom("A(c)", [1, Dy, Da]), W=nf.atom("W(c)", [Dk, Dx + 1])))
        px = build.pdf(I, N, Dx, "px")
        y = build.points("y", N, Dy)
        Wi, ai = nf.atom("W_i", [Dx + 1]), nf.atom("a_i", [Dy])
        got = I.call_method(c, "get_lb_heteroscedastic_term_i", [px, y, Wi, ai])
        w0 = Val([], nf.slice_axis(Wi, 0, 0, 1).terms)
        w = nf.slice_axis(Wi, 0, 1, Dx + 1)
        mu, S = px.f["mu"], px.f["Sigma"]
        M1 = Val(c.f["M"].axes[1:], c.f["M"].terms)
        b1 = Val(c.f["b"].axes[1:], c.f["b"].terms)
        aM = nf.einsum("y,yx->x", ai, M1)
        mg = nf.add(nf.add(nf.einsum("y,ny->n", ai, y), nf.einsum("y,y->", ai, b1), -1), nf.einsum("x,nx->n", aM, mu), -1)
        mh = nf.add(nf.einsum("x,nx->n", w, mu), w0)
        Sgg, Shh = nf.einsum("x,nxz,z->n", aM, S, aM), nf.einsum("x,nxz,z->n", w, S, w)
        Sgh = nf.neg(nf.einsum("x,nxz,z->n", aM, S, w))
        rS = nf.elementwise("Recip", Shh)
        c1 = nf.mul(Sgh, rS)
        c0 = nf.add(mg, nf.mul(c1, mh), -1)
        V = nf.add(Sgg, nf.mul(nf.mul(Sgh, Sgh), rS), -1)
        sh = nf.elementwise("Sqrt", Shh)
        z = nf.mul(mh, nf.elementwise("Sqrt", nf.elementwise("Recip", Shh)))
        Ph, ph = elementwise_inf("Phi", z), elementwise_inf("phi", z)
        T1 = nf.add(nf.mul(mh, Ph), nf.mul(sh, ph))
        T2 = nf.add(nf.mul(mh, T1), nf.mul(Shh, Ph))
        ref = nf.scale(nf.add(nf.add(nf.mul(Ph, nf.add(nf.mul(c0, c0), V)), nf.scale(nf.mul(nf.mul(c0, c1), T1), 2)), nf.mul(nf.mul(c1, c1), T2)), D(1) / 2)
        if not isinstance(got, Val) or len(got.axes) != 2:
            from ..core import Refuted
            raise Refuted(f"get_lb_heteroscedastic_term_i returns shape {getattr(got, 'shape', None)} (expected [1, N])", f"{A_}::{cls}.get_lb_heteroscedastic_term_i")
        g = Val(got.axes[1:], got.terms)
        d = nf.diff(g, ref, what="1/2 E[1(h>=0) g^2]")
        if d and nf.zero_mod_recip(nf.add(g, ref, -1)):
            d = []
        return d, dict(funcs=funcs_of(I))
    return Ob(f"lb-quadratic/{cls}/Dx>1", run,
              "step link, Dx > 1: get_lb_heteroscedastic_term_i == 1/2 E_n[1(h>=0) (a'(y_n - Mx - b))^2] through the conditional moments of g = a'(y - Mx - b) given h "
              "(2 x 2 joint, closed-form inverse) and the one-sided truncated moments of h",
              f"{A_}::{cls}.get_lb_heteroscedastic_term_i", group="lb-quadratic")


def relu_quadratic_ob():
    """ReLU link, Dx = 1 (thorough tier: about three minutes of rational normalisation): the quadratic term of the lower bound is assembled as
       E1 (c0^2 + V) + 2 c0 c1 E2 + c1^2 E3,   E_k = int_0^inf h^k N(h; m_h, S_hh) exp(B(h; omega)) dh,
    c0, c1, V the conditional moments of g = a'(y - Mx - b) given h (V = 0 for scalar x).  The truncated moments E_k of the tilted density
    are taken from the library pieces verified elsewhere (C05 linear sum, C01 hadamard, C20 truncated integrals), the assembly is the claim."""
    cls = "HeteroscedasticReLUConditional"

    def run():
        from ..nf import Val
        from ..dim import D
        nf.ST.generic_nonzero = True
        I = build.new_interp()
        Dy, Dk, Da, N = sym("Dy"), sym("Dk"), sym("Da"), sym("N")
        Dx = D(1)
        c = I.construct(cls, dict(M=nf.atom("M(c)", [1, Dy, Dx]), b=nf.atom("b(c)", [1, Dy]), A=nf.atom("A(c)", [1, Dy, Da]), W=nf.atom("W(c)", [Dk, Dx + 1])))
        px = build.pdf(I, N, Dx, "px")
        y = build.points("y", N, Dy)
        Wi, ai, om = nf.atom("W_i", [Dx + 1]), nf.atom("a_i", [Dy]), nf.atom("omega", [N])
        got = I.call_method(c, "_lower_bound_integrals", [px, y, Wi, ai, om])
        w0 = Val([], nf.slice_axis(Wi, 0, 0, 1).terms)
        w = nf.slice_axis(Wi, 0, 1, Dx + 1)
        mu, S = px.f["mu"], px.f["Sigma"]
        M1 = Val(c.f["M"].axes[1:], c.f["M"].terms)
        b1 = Val(c.f["b"].axes[1:], c.f["b"].terms)
        aM = nf.einsum("y,yx->x", ai, M1)
        mg = nf.add(nf.add(nf.einsum("y,ny->n", ai, y), nf.einsum("y,y->", ai, b1), -1), nf.einsum("x,nx->n", aM, mu), -1)
        mh = nf.add(nf.einsum("x,nx->n", w, mu), w0)
        Sgg, Shh = nf.einsum("x,nxz,z->n", aM, S, aM), nf.einsum("x,nxz,z->n", w, S, w)
        Sgh = nf.neg(nf.einsum("x,nxz,z->n", aM, S, w))
        rS = nf.elementwise("Recip", Shh)
        c1 = nf.mul(Sgh, rS)
        c0 = nf.add(mg, nf.mul(c1, mh), -1)
        V = nf.add(Sgg, nf.mul(nf.mul(Sgh, Sgh), rS), -1)
        p_h = I.call_method(px, "get_density_of_linear_sum", [nf.expand_dims(w, [None, None, "k"]), nf.expand_dims(w0, [None, None])])
        one = nf.add(om, nf.const(1))
        r1 = nf.elementwise("Recip", one)
        F = I.construct("LinearFactor", dict(nu=nf.expand_dims(nf.neg(r1), ["k", None]), ln_beta=nf.add(nf.neg(nf.elementwise("Log", one)), nf.mul(om, r1))))
        tp = I.construct("TruncatedGaussianMeasure", dict(measure=I.call_method(p_h, "hadamard", [F], dict(update_full=True)), lower_limit=D(0)))

        def col(v):
            return Val(v.axes[:1], v.terms)
        E1, E2 = col(I.call_method(tp, "integrate", ["x"])), col(I.call_method(tp, "integrate", ["x**2"]))
        E3 = col(I.call_method(tp, "integrate", ["x**k"], dict(k=3)))
        ref = nf.add(nf.add(nf.mul(E1, nf.add(nf.mul(c0, c0), V)), nf.scale(nf.mul(nf.mul(c0, c1), E2), 2)), nf.mul(nf.mul(c1, c1), E3))
        g = Val(got.axes[1:], got.terms)
        d = nf.diff(g, ref, what="ReLU quadratic term")
        if d and nf.zero_mod_recip(nf.add(g, ref, -1)):
            d = []
        return d, dict(funcs=funcs_of(I))
    return Ob(f"lb-quadratic/{cls}/Dx=1", run,
              "ReLU link, Dx = 1: _lower_bound_integrals == E1 (c0^2 + V) + 2 c0 c1 E2 + c1^2 E3 with the conditional moments of a'(y - Mx - b) given h and the "
              "truncated moments of the tilted density of h",
              f"{A_}::{cls}._lower_bound_integrals", group="lb-quadratic")


# ---------------------------------------------------------------- variational bounds: the Gaussian-form factors ARE the documented tangent bounds
def _bound_setup(cls, scalar_input=False):
    from ..nf import Val
    from ..interp import Interp
    from ..dim import D
    nf.ST.generic_nonzero = True
    I = build.new_interp()
    Dy, Dk, Da, N, Dx = sym("Dy"), sym("Dk"), sym("Da"), sym("N"), (D(1) if scalar_input else sym("Dx"))
    c = I.construct(cls, dict(M=nf.atom("M(c)", [1, Dy, Dx]), b=nf.atom("b(c)", [1, Dy]), A=nf.atom("A(c)", [1, Dy, Da]), W=nf.atom("W(c)", [Dk, Dx + 1])))
    px = build.pdf(I, N, Dx, "px")
    y = build.points("y", N, Dy)
    Wi, ai, om = nf.atom("W_i", [Dx + 1]), nf.atom("a_i", [Dy]), nf.atom("omega", [N])
    w0 = Val([], nf.slice_axis(Wi, 0, 0, 1).terms)
    w = nf.slice_axis(Wi, 0, 1, Dx + 1)
    return I, c, px, y, Wi, ai, om, w0, w, (Dy, Dk, Da, N, Dx)


def _moments_h(px, w, w0):
    """E[h], E[h^2] of h = w'x + w0 under each component of px (Wick): [N]"""
    mu, S = px.f["mu"], px.f["Sigma"]
    Eh = nf.add(nf.einsum("d,nd->n", w, mu), w0)
    Eh2 = nf.add(nf.einsum("d,nde,e->n", w, S, w), nf.mul(Eh, Eh))
    return Eh, Eh2


def bound_factor_ob(cls):
    """The quadratic term of the lower bound multiplies p(x) with exp(B(h; omega)), B the documented tangent bound of ln[f/(1+f)] resp.
    of its non-Gaussian part, written as a Gaussian-form factor exp(-g/2 (w'x)^2 + nu'x + ln_beta):
      exp link    sigma(h) >= exp( h/2 - ln(2 cosh(omega/2)) - tanh(omega/2)/(4 omega) (h^2 - omega^2) )        (Jaakkola-Jordan)
      cosh-1 link sech(h)  >= exp( - ln cosh(omega) - tanh(omega)/(2 omega) (h^2 - omega^2) )                    (ln cosh is concave in h^2)
      ReLU link   1/(1+h)  >= exp( - ln(1+omega) - (h - omega)/(1+omega) ),  h >= 0                              (-ln(1+h) is convex)
    with h = w'x + w0.  Expanding in x gives (g, nu, ln_beta); the factor constructed by the library must carry exactly these."""
    def run():
        from ..nf import Val
        from ..dim import D, LOG2
        from ..interp import Interp
        from ..core import Refuted
        I, c, px, y, Wi, ai, om, w0, w, (Dy, Dk, Da, N, Dx) = _bound_setup(cls, scalar_input="ReLU" in cls)
        made = []
        orig = Interp.construct

        def cons(self, clsname, kw, site=None):
            o = orig(self, clsname, kw, site)
            made.append(o)
            return o
        Interp.construct = cons
        try:
            I.call_method(c, "_lower_bound_integrals", [px, y, Wi, ai, om])
        finally:
            Interp.construct = orig
        anchor = f"{A_}::{cls}._lower_bound_integrals"
        d = []

        def cmp(name, got, ref):
            g = Val([a for a in got.axes if a], got.terms)          # the library carries ln_beta as [1, N]: compare up to unit axes
            r = Val([a for a in ref.axes if a], ref.terms)
            return [(name,) + tuple(q) for q in nf.diff(g, r, what=name)[:4]]
        if "ReLU" in cls:
            F = [o for o in made if o.cls == "LinearFactor"]
            if not F:
                raise Refuted("no LinearFactor (tangent bound of 1/(1+h)) is constructed", anchor)
            F = F[0]
            one_plus = nf.add(om, nf.const(1))
            r1 = nf.elementwise("Recip", one_plus)
            d += cmp("nu", F.f["nu"], nf.expand_dims(nf.neg(r1), ["k", None]))
            d += cmp("ln_beta", F.f["ln_beta"], nf.add(nf.neg(nf.elementwise("Log", one_plus)), nf.mul(om, r1)))
            return d, dict(funcs=funcs_of(I), construct=anchor)
        F = [o for o in made if o.cls == "OneRankFactor"]
        if not F:
            raise Refuted("no OneRankFactor (Gaussian-form tangent bound) is constructed", anchor)
        F = F[0]
        if "Exp" in cls:
            half = nf.scale(om, D(1) / 2)
            f_om = nf.add(nf.elementwise("Log", nf.elementwise("Cosh", half)), nf.const(LOG2))
            lam = nf.scale(nf.mul(nf.elementwise("Tanh", half), nf.elementwise("Recip", om)), D(1) / 4)       # tanh(omega/2) / (4 omega)
            lin = D(1) / 2
        else:
            f_om = nf.elementwise("Log", nf.elementwise("Cosh", om))
            lam = nf.scale(nf.mul(nf.elementwise("Tanh", om), nf.elementwise("Recip", om)), D(1) / 2)         # tanh(omega) / (2 omega)
            lin = D(0)
        # B = lin h - f_om - lam (h^2 - omega^2),  h = w'x + w0
        g_ref = nf.scale(lam, 2)
        nu_ref = nf.mul(nf.expand_dims(nf.add(nf.scale(nf.mul(lam, w0), -2), nf.const(lin)), ["k", None]), nf.expand_dims(w, [None, "k"]))
        lb_ref = nf.add(nf.add(nf.scale(nf.add(nf.scale(om, 0), w0), lin), f_om, -1), nf.mul(lam, nf.add(nf.mul(w0, w0), nf.mul(om, om), -1)), -1)
        d += cmp("g", F.f["g"], g_ref)
        d += cmp("nu", F.f["nu"], nu_ref)
        d += cmp("ln_beta", F.f["ln_beta"], lb_ref)
        # v is w (possibly tiled over the observations)
        v = F.f["v"]
        vref = nf.add(nf.scale(v, 0), nf.expand_dims(w, [None, "k"]))
        d += cmp("v", v, vref)
        return d, dict(funcs=funcs_of(I), construct=anchor)
    return Ob(f"bound-factor/{cls}", run,
              "the Gaussian-form factor multiplied into p(x) for the quadratic term of the lower bound is the documented tangent bound at omega "
              "(exp: Jaakkola-Jordan bound of the sigmoid; cosh-1: tangent of ln cosh in h^2; ReLU: tangent of -ln(1+h))",
              f"{A_}::{cls}._lower_bound_integrals", group="bound-factor")


def bound_logdet_ob(cls):
    """k_func = E_q[upper tangent bound of ln(1 + f(h))] and the variational parameter is its minimiser:
      exp    ln(1+e^h)   <= h/2 + ln(2cosh(w/2)) + tanh(w/2)/(4w) (h^2 - w^2),   omega^2 = E[h^2]
      cosh-1 ln cosh(h)  <= ln cosh(w) + tanh(w)/(2w) (h^2 - w^2),                omega^2 = E[h^2]"""
    def run():
        from ..dim import D, LOG2
        I, c, px, y, Wi, ai, om, w0, w, sizes = _bound_setup(cls)
        Eh, Eh2 = _moments_h(px, w, w0)
        d = []
        k = I.call_method(c, "k_func", [px, Wi, om])
        if "Exp" in cls:
            half = nf.scale(om, D(1) / 2)
            f_om = nf.add(nf.elementwise("Log", nf.elementwise("Cosh", half)), nf.const(LOG2))
            lam = nf.scale(nf.mul(nf.elementwise("Tanh", half), nf.elementwise("Recip", om)), D(1) / 4)
            ref = nf.add(nf.add(nf.scale(Eh, D(1) / 2), f_om), nf.mul(lam, nf.add(Eh2, nf.mul(om, om), -1)))
        else:
            f_om = nf.elementwise("Log", nf.elementwise("Cosh", om))
            lam = nf.scale(nf.mul(nf.elementwise("Tanh", om), nf.elementwise("Recip", om)), D(1) / 2)
            ref = nf.add(f_om, nf.mul(lam, nf.add(Eh2, nf.mul(om, om), -1)))
        d += [("k_func",) + tuple(q) for q in nf.diff(k, ref, what="k_func")[:4]]
        od = I.call_method(c, "_get_omega_dagger", [px, Wi])
        d += [("omega_dagger",) + tuple(q) for q in nf.diff(od, nf.elementwise("Sqrt", Eh2), what="omega_dagger")[:4]]
        return d, dict(funcs=funcs_of(I))
    return Ob(f"bound-logdet/{cls}", run,
              "k_func == E_q[tangent upper bound of ln(1 + f(h)) at omega] and _get_omega_dagger == sqrt(E_q[h^2]) (its minimiser: the bound is tight to second order there)",
              f"{A_}::{cls}.k_func", group="bound-logdet")


_SINGULAR_AT_ZERO_W = ("get_density_of_linear_sum",)


def _reachable_self_methods(prog, cls, entry):
    """methods reachable from `cls.entry` through self.<m> / cls.<m> / super().<m> references (MRO-resolved, so hooks overridden in `cls` are followed)"""
    import ast
    seen, todo = {}, [entry]
    while todo:
        m = todo.pop()
        if m in seen:
            continue
        r = prog.find_method(cls, m)
        if r is None:
            continue
        seen[m] = r
        for n in ast.walk(r[1]):
            if isinstance(n, ast.Attribute) and isinstance(n.value, ast.Name) and n.value.id in ("self", "cls", cls, r[0]):
                todo.append(n.attr)
            elif isinstance(n, ast.Attribute) and isinstance(n.value, ast.Call) and isinstance(n.value.func, ast.Name) and n.value.func.id == "super":
                todo.append(n.attr)
    return seen


def zero_weight_regular_ob(cls):
    """the bound is exactly tight at zero input weights (exp, cosh-1): nothing on its path may build the Gaussian law of the linear predictor
    h = w'x + w0 - its covariance w'Sigma w vanishes at w = 0 and GaussianPDF Cholesky-inverts it (inf / NaN)."""
    def run():
        import ast
        prog = model.load()
        def sites(c):
            out = []
            for m, (owner, fn) in sorted(_reachable_self_methods(prog, c, "integrate_log_conditional_y").items()):
                for n in ast.walk(fn):
                    if isinstance(n, ast.Call) and isinstance(n.func, ast.Attribute) and n.func.attr in _SINGULAR_AT_ZERO_W:
                        out.append(f"{A_}:{n.lineno} in {owner}.{m}: `{ast.unparse(n)[:90]}`")
            return out, len(_reachable_self_methods(prog, c, "integrate_log_conditional_y"))
        control, _ = sites("HeteroscedasticReLUConditional")
        if not control:
            raise Undecided("positive control lost: the ReLU link no longer builds the law of the linear predictor on its bound path - the rule cannot be shown to see such calls")
        bad, nm = sites(cls)
        if nm < 6:
            raise Undecided(f"only {nm} methods reachable from {cls}.integrate_log_conditional_y (floor 6)")
        if bad:
            raise Refuted(f"{bad[0]} builds the Gaussian law of the linear predictor on the bound path of {cls}: at zero input weights its covariance w'Sigma w is the "
                          "zero matrix, whose Cholesky inverse is inf / NaN, so the bound is NaN where the property demands a zero gap",
                          f"{A_}::{bad[0].split(' in ')[1].split(':')[0]}", bad)
        return [], dict(methods=nm, control_sites=len(control))
    return Ob(f"zero-weights/{cls}", run,
              "no method on the bound path of the exp / cosh-1 links constructs the law of the linear predictor (singular at zero input weights, where the gap must be exactly zero); "
              "structural necessary condition, positive control = the ReLU link",
              f"{A_}::{cls}.integrate_log_conditional_y", group="zero-weights")


def relu_logdet_ob():
    """rectified-linear link: k_func is the expectation of the tangent upper bound of ln(1 + relu(h)) on the half line h >= 0
    (ln(1+h) <= ln(1+omega) + (h - omega)/(1+omega), exact zero for h < 0), and the variational point is E[relu(h)]:
       k = Phi(z) ln(1+omega) + (m Phi(z) + s phi(z) - Phi(z) omega) / (1+omega),   omega_dagger = m Phi(z) + s phi(z),
    h ~ N(m, s^2) under each prior component, z = m / s (one-sided truncated-normal moments, written from the textbook).
    Found missing by the mutation sweep (`Zh * c0 -> Zh / c0` in k_func was reported by no check)."""
    cls = "HeteroscedasticReLUConditional"

    def run():
        from ..dim import D
        from ..intrinsics import elementwise_inf
        I, c, px, y, Wi, ai, om, w0, w, sizes = _bound_setup(cls)
        Eh, Eh2 = _moments_h(px, w, w0)
        s2 = nf.einsum("d,nde,e->n", w, px.f["Sigma"], w)
        sd = nf.elementwise("Sqrt", s2)
        z = nf.mul(Eh, nf.elementwise("Sqrt", nf.elementwise("Recip", s2)))
        Ph, ph = elementwise_inf("Phi", z), elementwise_inf("phi", z)
        relu_mean = nf.add(nf.mul(Eh, Ph), nf.mul(sd, ph))
        one_om = nf.add(om, nf.const(1))
        ref = nf.add(nf.mul(Ph, nf.elementwise("Log", one_om)), nf.mul(nf.elementwise("Recip", one_om), nf.add(relu_mean, nf.mul(Ph, om), -1)))
        d = []
        k = I.call_method(c, "k_func", [px, Wi, om])
        d += [("k_func",) + tuple(q) for q in nf.diff(k, ref, what="k_func")[:4]]
        od = I.call_method(c, "_get_omega_dagger", [px, Wi])
        d += [("omega_dagger",) + tuple(q) for q in nf.diff(od, relu_mean, what="omega_dagger")[:4]]
        return d, dict(funcs=funcs_of(I))
    return Ob(f"bound-logdet/{cls}", run,
              "k_func == E_q[1(h>=0) (ln(1+omega) + (h - omega)/(1+omega))] and _get_omega_dagger == E_q[relu(h)] in the standard normal cdf / pdf of z = m/s",
              f"{A_}::{cls}.k_func", group="bound-logdet")


def quadratic_assembly_ob(cls):
    """get_lb_quadratic_term(p_x, y)[n] == E_n[(y_n - Mx - b)' (AA')^-1 (y_n - Mx - b)] - sum_k T_k[n], where T_k is what
    get_lb_heteroscedastic_term_i returns for noise unit k (decided separately: exact for the step link, tangent bounds for the others).
    The per-unit term is replaced by an opaque array here, so this obligation reads the assembly only: the homoscedastic expectation,
    the sign and the sum over units.  Found missing by the mutation sweep (a dropped minus in `A_mat=-projected_M` was reported by no check)."""
    def run():
        from ..nf import Val
        I, c, px, y, Wi, ai, om, w0, w, (Dy, Dk, Da, N, Dx) = _bound_setup(cls)
        U = nf.atom("U", [Dx + 1, N])

        def het(I_, selfobj, args, kw):
            # stand-in for the per-unit term, linear in the unit's weight row (called once under vmap on the generic unit): [1, N]
            Wk = kw["W_i"] if "W_i" in kw else args[2]
            return nf.expand_dims(nf.einsum("d,dn->n", Wk, U), [None, "k"])
        owner = model.load().find_method(cls, "get_lb_heteroscedastic_term_i")[0]
        I.hooks[(owner, "get_lb_heteroscedastic_term_i")] = het
        got = I.call_method(c, "get_lb_quadratic_term", [px, y])
        mu, S = px.f["mu"], px.f["Sigma"]
        M1 = Val(c.f["M"].axes[1:], c.f["M"].terms)
        b1 = Val(c.f["b"].axes[1:], c.f["b"].terms)
        L1 = Val(c.f["Lambda"].axes[1:], c.f["Lambda"].terms)
        r = nf.add(nf.add(y, nf.expand_dims(b1, [None, "k"]), -1), nf.einsum("yx,nx->ny", M1, mu), -1)
        ref = nf.add(nf.add(nf.einsum("ny,yz,nz->n", r, L1, r), nf.einsum("yz,yx,nxv,zv->n", L1, M1, S, M1)), nf.einsum("kd,dn->n", c.f["W"], U), -1)
        ref = nf.expand_dims(ref, [None, "k"])          # the per-unit terms are rows [1, N]: the library's result is [1, N]
        d = nf.diff(got, ref, what="lb quadratic term")
        return d, dict(funcs=funcs_of(I))
    return Ob(f"quadratic-assembly/{cls}", run,
              "get_lb_quadratic_term == E_n[(y_n - Mx - b)' Lambda (y_n - Mx - b)] (Wick) - sum over noise units of the per-unit term (opaque here, decided by the lb-quadratic / bound-factor obligations)",
              f"{A_}::{cls}.get_lb_quadratic_term", group="quadratic-assembly")


def loglik_assembly_ob(cls):
    """integrate_log_conditional_y(p_x, y)[n] == -1/2 (Q[n] + L[n] + Dy ln 2pi) with Q = get_lb_quadratic_term, L = get_lb_log_det
    (both decided separately and opaque here): the Gaussian log-density assembled from its bounded parts, one value per observation."""
    def run():
        from ..nf import Val
        from ..dim import D, LOG2PI
        I, c, px, y, Wi, ai, om, w0, w, (Dy, Dk, Da, N, Dx) = _bound_setup(cls)
        Q, L = nf.atom("Q", [1, N]), nf.atom("L", [N])
        prog = model.load()
        I.hooks[(prog.find_method(cls, "get_lb_quadratic_term")[0], "get_lb_quadratic_term")] = lambda I_, o, a, k: Q
        I.hooks[(prog.find_method(cls, "get_lb_log_det")[0], "get_lb_log_det")] = lambda I_, o, a, k: L
        got = I.call_method(c, "integrate_log_conditional_y", [px, y])
        Q1 = Val(Q.axes[1:], Q.terms)
        ref = nf.scale(nf.add(nf.add(Q1, L), nf.const(D(Dy) * LOG2PI)), D(-1) / 2)
        return nf.diff(got, ref, what="integrate_log_conditional_y"), dict(funcs=funcs_of(I))
    return Ob(f"loglik-assembly/{cls}", run, "integrate_log_conditional_y == -1/2 (quadratic term + log-determinant term + Dy ln 2pi), one value per observation",
              f"{A_}::{cls}.integrate_log_conditional_y", group="quadratic-assembly")


def logdet_assembly_ob(cls):
    """get_lb_log_det(p_x)[n] == ln det AA' + sum_k k_func(p_x, W_k, omega_k)[n] with omega_k = _get_omega_dagger(p_x, W_k): the assembly over the
    noise units, with k_func and the variational point replaced by stand-ins that are linear in the unit's weight row (decided by bound-logdet)."""
    def run():
        from ..nf import Val
        I, c, px, y, Wi, ai, om, w0, w, (Dy, Dk, Da, N, Dx) = _bound_setup(cls)
        U, G, V = nf.atom("U", [Dx + 1, N]), nf.atom("G", [Dx + 1, N]), nf.atom("V", [N])
        prog = model.load()
        arg = lambda a, k, name, pos: k[name] if name in k else a[pos]
        od = lambda I_, o, a, k: nf.einsum("d,dn->n", arg(a, k, "W_i", 1), G)
        I.hooks[(prog.find_method(cls, "_get_omega_dagger")[0], "_get_omega_dagger")] = od
        I.hooks[("approximate_conditional", "_get_omega_dagger")] = od            # static method: resolved as a plain function of the module
        I.hooks[(prog.find_method(cls, "k_func")[0], "k_func")] = \
            lambda I_, o, a, k: nf.add(nf.einsum("d,dn->n", arg(a, k, "W_i", 1), U), nf.mul(arg(a, k, "omega_dagger", 2), V))
        got = I.call_method(c, "get_lb_log_det", [px])
        W = c.f["W"]
        lds = c.f["ln_det_Sigma"]
        lds0 = Val([], lds.terms) if (not lds.axes or not lds.axes[0]) else lds
        ref = nf.add(nf.add(nf.einsum("kd,dn->n", W, U), nf.mul(nf.einsum("kd,dn->n", W, G), V)), nf.expand_dims(lds0, []) if not lds0.axes else lds0)
        return nf.diff(got, ref, what="get_lb_log_det"), dict(funcs=funcs_of(I))
    return Ob(f"logdet-assembly/{cls}", run, "get_lb_log_det == ln det AA' + sum over noise units of k_func at that unit's variational point _get_omega_dagger (both opaque here)",
              f"{A_}::{cls}.get_lb_log_det", group="quadratic-assembly")


def coherence_square_ob(cls):
    """The coherence clause in the case where the library's closed-form update IS right: square invertible A with every column a noise unit
    (Da = Dk = Dy).  Stated axioms: (AA')^-1 = A^-T A^-1 and det(A (I + D) A') = det(AA') prod_k (1 + D_k) for a general-inverse pair
    (A, A^-1).  On today's tree this is PROVED, while the generic context Da >= Dy is the known finding F10 - so an edit of
    get_conditional_cov that breaks the square case as well is a *different* violation and is reported (the mutation sweep showed that a
    sign flip in the Woodbury line was absorbed by the F10 entry)."""
    def run():
        nf.ST.generic_nonzero = True
        I = build.new_interp()
        Dy, Dx, N = sym("Dy"), sym("Dx"), sym("N")
        A = nf.atom("A(c)", [1, Dy, Dy])
        c = I.construct(cls, dict(M=nf.atom("M(c)", [1, Dy, Dx]), b=nf.atom("b(c)", [1, Dy]), A=A, W=nf.atom("W(c)", [Dy, Dx + 1])))
        Ai = nf.ginverse(A)
        c.f["Lambda"] = nf.einsum("rba,rbc->rac", Ai, Ai)
        xs = build.points("xs", N, Dx)
        q = I.call_method(c, "condition_on_x", [xs])
        S, L, lds = q.f["Sigma"], q.f["Lambda"], q.f["ln_det_Sigma"]
        prod = nf.einsum("rab,rbc->rac", S, L, what="Sigma*Lambda")
        eye = nf.expand_dims(nf.eye(S.shape[-1]), [None])
        d = [("Sigma*Lambda!=I",) + tuple(x) for x in nf.diff(prod, nf.add(nf.scale(prod, 0), eye), what="Sigma*Lambda")[:4]]
        Dlink = I.call_method(c, "link_function", [I.call_method(c, "linear_layer", [xs])])
        c_lds = c.f["ln_det_Sigma"]
        c_lds = nf.Val([], c_lds.terms) if (c_lds.axes and not c_lds.axes[0]) else c_lds
        ref = nf.add(nf.sum_axis(nf.elementwise("Log", nf.add(Dlink, nf.const(1))), 1, False), c_lds)
        d += [("ln_det_Sigma!=LnDet(Sigma)",) + tuple(x) for x in nf.diff(lds, ref, what="ln_det_Sigma")[:4]]
        return d, dict(funcs=funcs_of(I))
    return Ob(f"coherent-square/{cls}", run,
              "square invertible A, all columns noise units: Sigma_y(x) Lambda_y(x) = I and ln det Sigma_y(x) = ln det AA' + sum_k ln(1 + link(h_k)) "
              "(axioms (AA')^-1 = A^-T A^-1, det multiplicativity); the case outside the known finding F10",
              f"{A_}::HeteroscedasticConditional.get_conditional_cov", group="coherent-square")


def bound_integral_ob(cls):
    """exp / cosh-1 links: the per-unit quadratic term  T = int f(h) phi(h; omega) (a'(y - Mx - b))^2 p(x) dx  is assembled correctly from Gaussian
    measures: with phi the tangent-bound factor (decided by bound-factor), f(h) phi = phi (exp link: the sigmoid bound already contains e^h / (1+e^h))
    resp. f = cosh(h) - 1 = e^h/2 + e^-h/2 - 1 (cosh-1 link).  Reference per Gaussian measure m = p(x) phi(h) e_s(h):
        int g^2 dm = Z_m ((c - a'M mu_m)^2 + a'M Sigma_m M'a),   g = c - a'M x,  c = a'(y - b),
    with Z_m, mu_m = Sigma_m nu_m, Sigma_m read from the measure object that the (C01 / C04-proved) hadamard product returns.  Found missing by the
    mutation sweep (a dropped minus in `A_mat=-a_projected_M` of the cosh-1 assembly was reported by no check)."""
    def run():
        from ..nf import Val
        from ..dim import LOG2
        from ..interp import Interp
        from ..core import Refuted
        I, c, px, y, Wi, ai, om, w0, w, (Dy, Dk, Da, N, Dx) = _bound_setup(cls)
        made, orig = [], Interp.construct

        def cons(self, clsname, kw, site=None):
            o = orig(self, clsname, kw, site)
            made.append(o)
            return o
        Interp.construct = cons
        try:
            got = I.call_method(c, "_lower_bound_integrals", [px, y, Wi, ai, om])
        finally:
            Interp.construct = orig
        F = [o for o in made if o.cls == "OneRankFactor"]
        if not F:
            raise Refuted("no OneRankFactor (Gaussian-form tangent bound) is constructed", f"{A_}::{cls}._lower_bound_integrals")
        lb = I.call_method(px, "hadamard", [F[0]], dict(update_full=True))
        M1, b1 = Val(c.f["M"].axes[1:], c.f["M"].terms), Val(c.f["b"].axes[1:], c.f["b"].terms)
        cc = nf.add(nf.einsum("y,ny->n", ai, y), nf.einsum("y,y->", ai, b1), -1)
        mt = nf.einsum("y,yx->x", ai, M1)

        def Q(m):
            Z = I.call_method(m, "integral", [])
            S = m.f["Sigma"]
            mu = nf.einsum("nab,nb->na", S, m.f["nu"])
            r = nf.add(cc, nf.einsum("x,nx->n", mt, mu), -1)
            return nf.mul(Z, nf.add(nf.mul(r, r), nf.einsum("x,nxz,z->n", mt, S, mt)))
        if "Exp" in cls:
            ref = Q(lb)
        else:
            wrow = nf.expand_dims(w, [None, "k"])
            ep = I.construct("LinearFactor", dict(nu=wrow, ln_beta=nf.expand_dims(nf.add(w0, nf.const(LOG2), -1), [None])))
            em = I.construct("LinearFactor", dict(nu=nf.neg(wrow), ln_beta=nf.expand_dims(nf.add(nf.neg(w0), nf.const(LOG2), -1), [None])))
            mp = I.call_method(lb, "hadamard", [ep], dict(update_full=True))
            mm = I.call_method(lb, "hadamard", [em], dict(update_full=True))
            ref = nf.add(nf.add(Q(mp), Q(mm)), Q(lb), -1)
        if not isinstance(got, Val):
            raise Refuted(f"_lower_bound_integrals returns {type(got).__name__} (expected one array without compute_fourth_order)", f"{A_}::{cls}._lower_bound_integrals")
        g = Val([a for a in got.axes if a], got.terms)
        r = Val([a for a in ref.axes if a], ref.terms)
        d = nf.diff(g, r, what="int f phi g^2 p dx")
        if d and nf.zero_mod_recip(nf.add(g, r, -1)):
            d = []
        return d, dict(funcs=funcs_of(I))
    return Ob(f"bound-integral/{cls}", run,
              "_lower_bound_integrals == sum_s c_s Z_s ((c - a'M mu_s)^2 + a'M Sigma_s M'a) over the Gaussian measures p(x) phi(h) e_s(h) (exp: phi alone; cosh-1: e^h/2, e^-h/2, -1)",
              f"{A_}::{cls}._lower_bound_integrals", group="bound-factor")


def obligations(tier):
    obs = []
    for cls in CLASSES:
        ob = hetero_condition_ob(cls)
        ob.key = "moments-of-" + ob.key
        ob.group = "conditional"
        obs.append(ob)
        lk = link_ob(cls)
        lk.group = "conditional"
        obs.append(lk)
        obs.append(coherence_ob(cls))
        obs.append(coherence_square_ob(cls))
    obs.append(step_logdet_ob())
    obs.append(step_quadratic_ob())
    obs.append(step_quadratic_general_ob())
    if tier == "thorough":
        obs.append(relu_quadratic_ob())
    for cls in ("HeteroscedasticExpConditional", "HeteroscedasticCoshM1Conditional", "HeteroscedasticReLUConditional"):
        obs.append(bound_factor_ob(cls))
    for cls in ("HeteroscedasticExpConditional", "HeteroscedasticCoshM1Conditional"):
        obs.append(bound_logdet_ob(cls))
        obs.append(bound_integral_ob(cls))
        obs.append(zero_weight_regular_ob(cls))
    obs.append(relu_logdet_ob())
    for cls in CLASSES:
        obs.append(quadratic_assembly_ob(cls))
        obs.append(loglik_assembly_ob(cls))
        if "Heaviside" not in cls:          # the step link overrides get_lb_log_det with the exact expectation (lb-logdet)
            obs.append(logdet_assembly_ob(cls))
    from .c20 import summary_ob
    obs += [summary_ob("normal_cdf"), summary_ob("normal_pdf")]      # the step / rectified-linear terms are stated in Phi / phi
    return obs


FLOORS = {"group:conditional": 8, "group:coherent": 4, "group:coherent-square": 4, "group:lb-quadratic": 2, "group:bound-factor": 5, "group:bound-logdet": 3, "group:quadratic-assembly": 11, "group:zero-weights": 2, "group:summary": 2}
LEVEL = "other"
EXPLANATION = ("PARTIAL: for all four link functions, condition_on_x has mean Mx+b and covariance AA' + A_k diag(link(Wx+w0)) A_k' (proved), and the coherence of the "
               "returned precision / log-determinant with that covariance is decided (refuted for generic Da >= Dy: known finding F10). Step link: the log-determinant term and the "
               "heteroscedastic quadratic term of integrate_log_conditional_y are proved exact (Dx = 1 and Dx > 1). Exp / cosh-1 / ReLU links: the Gaussian-form factors used for the "
               "quadratic term are proved to be the documented tangent bounds (Jaakkola-Jordan bound of the sigmoid, tangent of ln cosh in h^2, tangent of -ln(1+h)), k_func is the "
               "expectation of the tangent upper bound of ln(1+f(h)) and the variational parameter is its minimiser sqrt(E[h^2]) (exp, cosh-1). NOT decided: that these tangent "
               "bounds are inequalities (classical convexity facts, trusted; of the zero-gap clause only the structural part that no method on the exp / cosh-1 bound path builds the law of the linear predictor, singular at zero weights), the remaining assembly of the ReLU quadratic term (truncated moments of the tilted density), the fixed-point "
               "iteration (lax.while_loop) and the tightness limits.")

"""C20 (partial) - truncated one-dimensional Gaussian measures: dispatch table, support indicator, homogeneity in the base mass,
normalised variant evaluates the normalised base."""
import ast
from .. import nf, build, model
from ..nf import Val, Undecided
from ..dim import D
from ..build import sym
from ..core import Ob, Refuted
from .common import funcs_of

PROP = "C20"
T = "gaussian_toolbox/experimental/truncated_measure.py"


def make_trunc(I, base, cls="TruncatedGaussianMeasure", degenerate=False):
    R = sym("R")
    if base == "pdf":
        u = build.pdf(I, R, D(1), "u")
    else:
        u = build.measure(I, R, D(1), "u", warm=(base == "warm"))
    a, b = nf.atom("a", [R, 1], owner="u"), nf.atom("b", [R, 1], owner="u")
    if degenerate:
        b = a         # the cdf difference cancels identically (the symbolic stand-in for an interval so far in the tail that it cancels in float64)
    t = I.construct(cls, dict(measure=u, lower_limit=a, upper_limit=b))
    return t, u, a, b


def table_ob(prog):
    def run():
        r = prog.find_method("TruncatedGaussianMeasure", "integration_dict")
        if r is None:
            raise model.AnchorError("TruncatedGaussianMeasure.integration_dict not found")
        from .c03 import table_keys
        tab = table_keys(prog, "TruncatedGaussianMeasure")
        bad = []
        for k in ("1", "x", "x**2", "x**k"):
            if k not in tab:
                bad.append(f"documented integrand {k!r} missing")
            elif prog.find_method("TruncatedGaussianMeasure", tab[k][5:]) is None:
                bad.append(f"{k!r} -> {tab[k]}: no such method")
        want = {"1": "integral", "x": "integrate_x", "x**2": "integrate_x_pow_2", "x**k": "integrate_x_pow_k"}
        for k, m in want.items():
            if k in tab and tab[k] != "self." + m and prog.find_method("TruncatedGaussianMeasure", m) is not None:
                bad.append(f"{k!r} is dispatched to {tab[k]} instead of self.{m}")
        if bad:
            raise Refuted("; ".join(bad), f"{T}::TruncatedGaussianMeasure.integration_dict")
        return [], dict(keys=len(tab))
    return Ob("table/dispatch", run, "integrate('1'|'x'|'x**2'|'x**k') dispatches to the matching method", f"{T}::TruncatedGaussianMeasure.integration_dict", group="table")


def indicator_ob(base, element_wise):
    def run():
        I = build.new_interp()
        t, u, a, b = make_trunc(I, base)
        R, N = sym("R"), sym("N")
        x = nf.atom("x", [R if element_wise else N, 1])
        got = I.call_method(t, "__call__", [x], dict(element_wise=element_wise))
        ux = I.call_method(u, "evaluate", [x], dict(element_wise=element_wise))
        from ..intrinsics import _compare_vals
        if element_wise:
            ge, le = _compare_vals("Ge", x, a), _compare_vals("Le", x, b)
            ind = nf.mul(Val(ge.axes[:1], ge.terms), Val(le.axes[:1], le.terms))
        else:
            ge = _compare_vals("Ge", nf.expand_dims(x, [None]), nf.expand_dims(a, ["k", None]))
            le = _compare_vals("Le", nf.expand_dims(x, [None]), nf.expand_dims(b, ["k", None]))
            ind = nf.mul(Val(ge.axes[:2], ge.terms), Val(le.axes[:2], le.terms))
        ref = nf.mul(ux, ind)
        return nf.diff(got, ref, what="truncated evaluation"), dict(funcs=funcs_of(I))
    return Ob(f"indicator/{base}/{'elementwise' if element_wise else 'all'}", run, "evaluation == u(x) * [x >= lower] * [x <= upper] (conjunction of both bounds, per component)",
              f"{T}::TruncatedGaussianMeasure.__call__", group="indicator")


def homogeneity_ob(base, key):
    def run():
        I = build.new_interp()
        t, u, a, b = make_trunc(I, base)
        mass = I.call_method(u, "integral", [])
        mt = nf.normalize(mass)
        if len(mt) != 1 or len(mt[0][1].f) != 1:
            raise Undecided("base mass is not a single head")
        mh = mt[0][1].f[0][0]
        got = I.call_method(t, "integrate", [key])
        bad = []
        for c, n in nf.normalize(got):
            k = sum(1 for h, _ in n.f if h == mh)
            if k != 1:
                bad.append(f"term of degree {k} in the base mass: ({c}) {nf.show_net(n, got)}")
        exps = {"1": "_expectation_integral", "x": "_expectation_x", "x**2": "_get_variance"}
        e = I.call_method(t, exps[key], [])
        for c, n in nf.normalize(e):
            if any(h == mh for h, _ in n.f):
                bad.append(f"{exps[key]} depends on the base mass")
        if bad:
            raise Refuted(f"integrate({key!r}) is not homogeneous of degree one in the mass of the base measure: " + "; ".join(bad[:3]), f"{T}::TruncatedGaussianMeasure.integration_dict[{key!r}]")
        return [], dict(funcs=funcs_of(I), terms=len(nf.normalize(got)))
    return Ob(f"homogeneity/{base}/{key}", run, "integrate(key) has degree exactly one in the base measure's total mass; the normalised expectations have degree zero",
              f"{T}::TruncatedGaussianMeasure.integrate", group="homogeneity")


def closed_form_ob(base, key):
    """integrals of 1, x, x^2 over [a,b] against u: mass * textbook truncated-normal expressions in Phi / phi."""
    def run():
        nf.ST.generic_nonzero = True
        I = build.new_interp()
        t, u, a, b = make_trunc(I, base)
        got = I.call_method(t, "integrate", [key])
        from .common import measure_reference
        kind = "pdf" if base == "pdf" else base
        mu, Sig, mass = measure_reference(u, kind)
        mu1 = mu                                                   # [R,1]
        S1 = Val(Sig.axes[:2], Sig.terms)                           # [R,1]  (variance)
        Lam = nf.inverse(Sig)[0]
        L1 = Val(Lam.axes[:2], Lam.terms)
        sl, sg = nf.elementwise("Sqrt", L1), nf.elementwise("Sqrt", S1)
        al = nf.mul(nf.add(a, mu1, -1), sl)
        be = nf.mul(nf.add(b, mu1, -1), sl)
        Pa, Pb = nf.elementwise("Phi", al), nf.elementwise("Phi", be)
        pa, pb = nf.elementwise("phi", al), nf.elementwise("phi", be)
        Z = nf.add(Pb, Pa, -1)
        dphi = nf.add(pa, pb, -1)
        if key == "1":
            ref = Val(Z.axes[:1], Z.terms)
        elif key == "x":
            ref = nf.add(nf.mul(mu1, Z), nf.mul(dphi, sg))
        else:
            t1 = nf.mul(S1, nf.add(Z, nf.add(nf.mul(be, pb), nf.mul(al, pa), -1), -1))
            ref = nf.add(nf.add(t1, nf.mul(nf.mul(mu1, mu1), Z)), nf.scale(nf.mul(nf.mul(mu1, sg), dphi), 2))
        if mass is not None:
            k = len(ref.axes)
            ref = nf.mul(nf.expand_dims(mass, ["k"] + [None] * (k - 1)), ref)
        d = nf.diff(got, ref, what=f"integrate({key!r})")
        if d and nf.zero_mod_recip(nf.add(got, ref, -1)):
            d = []
        return d, dict(funcs=funcs_of(I))
    return Ob(f"closed-form/{base}/{key}", run,
              "integrate('1'|'x'|'x**2') == mass * {Z, mu Z + (phi(alpha)-phi(beta)) sigma, sigma^2 (Z - beta phi(beta) + alpha phi(alpha)) + mu^2 Z + 2 mu sigma (phi(alpha)-phi(beta))}, Z = Phi(beta)-Phi(alpha), alpha,beta standardised limits",
              f"{T}::TruncatedGaussianMeasure.integrate", group="closed-form")


def power_ob(base, k):
    """integrate('x**k', k=K) for a concrete K: the scan is unrolled; reference = raw-moment Stein recursion
       m_0 = 1,  m_j = mu m_{j-1} + (j-1) sigma^2 m_{j-2} - sigma ((mu + sigma beta)^{j-1} phi(beta) - (mu + sigma alpha)^{j-1} phi(alpha)) / Z
    (a different derivation than the library's binomial expansion of the standardised recursion)."""
    def run():
        nf.ST.generic_nonzero = True
        I = build.new_interp()
        t, u, a, b = make_trunc(I, base)
        got = I.call_method(t, "integrate", ["x**k"], dict(k=k))
        from .common import measure_reference
        mu, Sig, mass = measure_reference(u, "pdf" if base == "pdf" else base)
        mu1 = mu
        S1 = Val(Sig.axes[:2], Sig.terms)
        Lam = nf.inverse(Sig)[0]
        L1 = Val(Lam.axes[:2], Lam.terms)
        sl, sg = nf.elementwise("Sqrt", L1), nf.elementwise("Sqrt", S1)
        al = nf.mul(nf.add(a, mu1, -1), sl)
        be = nf.mul(nf.add(b, mu1, -1), sl)
        Pa, Pb = nf.elementwise("Phi", al), nf.elementwise("Phi", be)
        pa, pb = nf.elementwise("phi", al), nf.elementwise("phi", be)
        Z = nf.add(Pb, Pa, -1)
        rZ = nf.elementwise("Recip", Z)
        xb, xa = nf.add(mu1, nf.mul(sg, be)), nf.add(mu1, nf.mul(sg, al))

        def power(v, n):
            out = nf.add(nf.scale(v, 0), nf.const(1))
            for _ in range(n):
                out = nf.mul(out, v)
            return out
        m = [nf.add(nf.scale(mu1, 0), nf.const(1))]
        for j in range(1, k + 1):
            bnd = nf.add(nf.mul(power(xb, j - 1), pb), nf.mul(power(xa, j - 1), pa), -1)
            mj = nf.add(nf.mul(mu1, m[j - 1]), nf.scale(nf.mul(nf.mul(sg, bnd), rZ), -1))
            if j >= 2:
                mj = nf.add(mj, nf.scale(nf.mul(S1, m[j - 2]), j - 1))
            m.append(mj)
        ref = nf.mul(m[k], Z)
        if mass is not None:
            ref = nf.mul(nf.expand_dims(mass, ["k", None]), ref)
        d = nf.diff(got, ref, what=f"integrate('x**k', k={k})")
        if d and nf.zero_mod_recip(nf.add(got, ref, -1)):
            d = []
        return d, dict(funcs=funcs_of(I))
    return Ob(f"power/{base}/k={k}", run,
              "integrate('x**k', k) == mass * Z * m_k with the raw-moment recursion m_j = mu m_{j-1} + (j-1) sigma^2 m_{j-2} - sigma (x_b^{j-1} phi(beta) - x_a^{j-1} phi(alpha)) / Z "
              "(lax.scan unrolled for the concrete k; misc.binom summarised by the binomial coefficient)",
              f"{T}::TruncatedGaussianMeasure._get_moment", group="power")


def zero_mass_ob(base, key, k=None):
    """interval whose cdf difference is exactly zero (far tail / empty): every integral is zero - the zero-mass guard
    `where(Z != 0, Z, 1)` may protect divisions but must never reach the mass itself."""
    def run():
        nf.ST.generic_nonzero = True
        I = build.new_interp()
        t, u, a, b = make_trunc(I, base, degenerate=True)
        got = I.call_method(t, "integrate", [key], dict(k=k) if k is not None else {})
        d = nf.diff(got, nf.scale(got, 0), what=f"integrate({key!r}) over an interval of zero mass")
        return d, dict(funcs=funcs_of(I))
    return Ob(f"zero-mass/{base}/{key}" + (f"/k={k}" if k is not None else ""), run,
              "Phi(beta) - Phi(alpha) == 0 (far-tail / empty interval)  =>  integrate('1'|'x'|'x**2'|'x**k') == 0",
              f"{T}::TruncatedGaussianMeasure.integral", group="zero-mass")


def pdf_moments_ob(base, via):
    """the normalised truncated density has the exact truncated mean / variance / standard deviation (textbook closed forms)"""
    def run():
        nf.ST.generic_nonzero = True
        I = build.new_interp()
        if via == "get_density":
            t, u, a, b = make_trunc(I, base)
            p = I.call_method(t, "get_density", [])
        else:
            p, u, a, b = make_trunc(I, base, "TruncatedGaussianPDF")
        # moments of the normalised base density (that this density is the normalised base measure is the pdf/* obligation)
        dens = p.f["density"]
        mu = dens.f["mu"]
        S1 = Val(dens.f["Sigma"].axes[:2], dens.f["Sigma"].terms)
        L1 = Val(dens.f["Lambda"].axes[:2], dens.f["Lambda"].terms)
        sl, sg = nf.elementwise("Sqrt", L1), nf.elementwise("Sqrt", S1)
        al, be = nf.mul(nf.add(a, mu, -1), sl), nf.mul(nf.add(b, mu, -1), sl)
        Pa, Pb = nf.elementwise("Phi", al), nf.elementwise("Phi", be)
        pa, pb = nf.elementwise("phi", al), nf.elementwise("phi", be)
        rZ = nf.elementwise("Recip", nf.add(Pb, Pa, -1))
        dphi = nf.mul(nf.add(pa, pb, -1), rZ)
        mean_ref = nf.add(mu, nf.mul(dphi, sg))
        var_ref = nf.mul(S1, nf.add(nf.add(nf.add(nf.scale(dphi, 0), nf.const(1)), nf.mul(nf.add(nf.mul(be, pb), nf.mul(al, pa), -1), rZ), -1), nf.mul(dphi, dphi), -1))
        d = []
        for name, ref in (("get_mean", mean_ref), ("get_variance", var_ref)):
            got = I.call_method(p, name, [])
            dd = nf.diff(got, ref, what=name)
            if dd and nf.zero_mod_recip(nf.add(got, ref, -1)):
                dd = []
            d += [(name,) + tuple(q) for q in dd[:4]]
        std = I.call_method(p, "get_std", [])
        dd = nf.diff(std, nf.elementwise("Sqrt", I.call_method(p, "get_variance", [])), what="get_std")
        d += [("get_std",) + tuple(q) for q in dd[:4]]
        return d, dict(funcs=funcs_of(I))
    return Ob(f"pdf-moments/{base}/{via}", run,
              "get_mean == mu + sigma (phi(alpha)-phi(beta))/Z, get_variance == sigma^2 (1 - (beta phi(beta) - alpha phi(alpha))/Z - ((phi(alpha)-phi(beta))/Z)^2), get_std == sqrt(get_variance)",
              f"{T}::TruncatedGaussianPDF.get_mean", group="pdf-moments")


def pdf_ob(base, via, element_wise=False):
    """element_wise: x has one row per component and the density of component r is evaluated at x_r only (added after the mutation sweep:
    the element-wise branch of TruncatedGaussianPDF.__call__ multiplied by / divided by the normalising constant unnoticed)"""
    def run_ew():
        I = build.new_interp()
        R = sym("R")
        p, u, a, b = make_trunc(I, base, "TruncatedGaussianPDF")
        x = nf.atom("x", [R, 1])
        got = I.call_method(p, "__call__", [x], dict(element_wise=True))
        dx = I.call_method(p.f["density"], "evaluate", [x], dict(element_wise=True))
        from ..intrinsics import _compare_vals
        ge, le = _compare_vals("Ge", x, a), _compare_vals("Le", x, b)
        ind = nf.mul(Val(ge.axes[:1], ge.terms), Val(le.axes[:1], le.terms))
        Z = I.call_method(p, "_expectation_integral", [])
        ref = nf.mul(nf.mul(dx, ind), nf.elementwise("Recip", Z))
        return nf.diff(got, ref, what="truncated density evaluation (element-wise)"), dict(funcs=funcs_of(I))

    def run():
        if element_wise:
            return run_ew()
        I = build.new_interp()
        R, N = sym("R"), sym("N")
        if via == "get_density":
            t, u, a, b = make_trunc(I, base)
            p = I.call_method(t, "get_density", [])
        else:
            p, u, a, b = make_trunc(I, base, "TruncatedGaussianPDF")
        if p.cls != "TruncatedGaussianPDF":
            raise Refuted(f"{via} returns {p.cls}", f"{T}::TruncatedGaussianMeasure.get_density")
        x = nf.atom("x", [N, 1])
        got = I.call_method(p, "__call__", [x])
        dens = p.f["density"]
        dx = I.call_method(dens, "evaluate", [x])
        from ..intrinsics import _compare_vals
        ge = _compare_vals("Ge", nf.expand_dims(x, [None]), nf.expand_dims(a, ["k", None]))
        le = _compare_vals("Le", nf.expand_dims(x, [None]), nf.expand_dims(b, ["k", None]))
        ind = nf.mul(Val(ge.axes[:2], ge.terms), Val(le.axes[:2], le.terms))
        Z = I.call_method(p, "_expectation_integral", [])
        ref = nf.mul(nf.mul(dx, ind), nf.expand_dims(nf.elementwise("Recip", Z), ["k", None]))
        d = nf.diff(got, ref, what="truncated density evaluation")
        one = I.call_method(p, "integral", [])
        if not nf.zero_mod_recip(nf.add(one, nf.const(1), -1)) and nf.diff(one, nf.add(nf.scale(one, 0), nf.const(1))):
            d += [("integral != 1", nf.show(one, 4))]
        return d, dict(funcs=funcs_of(I))
    return Ob(f"pdf/{base}/{via}" + ("/elementwise" if element_wise else ""), run, "normalised truncated density == normalised base density(x) * indicator / truncated mass; integrates to one",
              f"{T}::TruncatedGaussianPDF.__call__", group="pdf")


_CANCELLING_CDF = ("erf",)


def summary_ob(fname):
    """the checks above replace misc.normal_cdf / normal_pdf by the opaque standard normal cdf / pdf: this obligation reads their BODIES.
    Algebra: the body equals norm.cdf(x) / norm.pdf(x), given that a guard `norm.cdf(x) < 1` holds (true for every finite x).
    Tail accuracy (structural): the cdf is not assembled from erf - 1 + erf(x / sqrt 2) has absolute accuracy only, so masses of
    lower-tail intervals lose their relative accuracy and vanish below -8.3 sigma, where norm.cdf (erfc-based) is accurate to rounding."""
    M = "gaussian_toolbox/experimental/misc.py"

    def run():
        prog = model.load()
        fn = prog.functions.get(("experimental.misc", fname))
        if fn is None:
            raise model.AnchorError(f"experimental/misc.py::{fname} not found")
        if fname == "normal_cdf":
            for n in ast.walk(fn):
                if isinstance(n, ast.Call):
                    r = prog.resolve_static("experimental.misc", n.func)
                    nm = r[1].rsplit(".", 1)[-1] if r and r[0] == "ext" else None
                    if nm in _CANCELLING_CDF:
                        raise Refuted(f"{M}:{n.lineno} in {fname}: `{ast.unparse(n)[:80]}` - the cdf is assembled from erf: 1 + erf(x / sqrt 2) cancels for x < 0 "
                                      "(absolute accuracy 1e-16 only), so the mass of a lower-tail interval has no relative accuracy and is exactly 0 below -8.3 sigma; "
                                      "norm.cdf / erfc keep the relative accuracy the normalised truncated density divides by", f"{M}::{fname}")
        I = build.new_interp()
        if fname == "binom":
            # k! / (i! (k-i)!) through log-gamma, rounded to the nearest integer
            k, i = nf.atom("k", []), nf.atom("i", [])
            got = I.call_fn(fn, "experimental.misc", None, None, [k, i], {})
            g = lambda v: nf.elementwise("GammaLn", nf.add(v, nf.const(1)))
            want = nf.elementwise("Round", nf.elementwise("Exp", nf.add(nf.add(g(k), g(i), -1), g(nf.add(k, i, -1)), -1)))
            d = nf.diff(got, want, what=fname)
            if d:
                # without the rounding (exact in real arithmetic)
                d2 = nf.diff(got, nf.elementwise("Exp", nf.add(nf.add(g(k), g(i), -1), g(nf.add(k, i, -1)), -1)), what=fname)
                d = d2 if not d2 else d
            return [tuple(q) for q in d[:4]], dict(funcs=funcs_of(I))
        x = nf.atom("x", [sym("R"), 1])
        got = I.call_fn(fn, "experimental.misc", None, None, [x], {})
        from ..intrinsics import elementwise_inf, _compare_vals
        kind = "Normcdf" if fname == "normal_cdf" else "Normpdf"
        want = elementwise_inf(kind, x)
        d = nf.diff(got, want, what=fname)
        if d and fname == "normal_cdf":
            # guards comparing the cdf with 1 are decided in exact arithmetic (cdf(x) < 1 for every finite x): substitute their truth values
            one, zero = nf.add(nf.scale(x, D(0)), nf.const(1)), nf.scale(x, D(0))
            g2 = got
            truth = {"Lt": 1, "Le": 1, "Ne": 1, "Gt": 0, "Ge": 0, "Eq": 0}
            flip = {"Lt": "Gt", "Le": "Ge", "Gt": "Lt", "Ge": "Le", "Eq": "Eq", "Ne": "Ne"}
            for kd, tv in truth.items():
                for guard in (_compare_vals(kd, want, nf.const(1)), _compare_vals(flip[kd], nf.const(1), want)):
                    try:
                        g2 = nf.subst_head_top(g2, guard, one if tv else zero, what="cdf < 1")
                    except Undecided:
                        continue
            d = nf.diff(g2, want, what=fname)
        return [tuple(q) for q in d[:4]], dict(funcs=funcs_of(I))
    what = {"normal_cdf": "the standard normal cdf, computed without the cancelling 1 + erf form", "normal_pdf": "the standard normal pdf",
            "binom": "the binomial coefficient exp(lgamma(k+1) - lgamma(i+1) - lgamma(k-i+1))"}[fname]
    return Ob(f"summary/{fname}", run, f"the body of misc.{fname} is {what} (which the other obligations substitute for it)", f"{M}::{fname}", group="summary")


def obligations(tier):
    prog = model.load()
    obs = [table_ob(prog)]
    for base in ("cold", "warm", "pdf"):
        for ew in (False, True):
            obs.append(indicator_ob(base, ew))
        if base != "pdf":           # a normalised base has mass one: nothing to be homogeneous in
            for key in ("1", "x", "x**2"):
                obs.append(homogeneity_ob(base, key))
        for via in ("get_density", "direct"):
            obs.append(pdf_ob(base, via))
            if via == "direct":
                obs.append(pdf_ob(base, via, element_wise=True))
            obs.append(pdf_moments_ob(base, via))
        for key in ("1", "x", "x**2"):
            obs.append(closed_form_ob(base, key))
    for base in ("cold", "pdf"):
        for key, k in (("1", None), ("x", None), ("x**2", None), ("x**k", 0), ("x**k", 3)):
            obs.append(zero_mass_ob(base, key, k))
    for base in ("cold", "pdf"):
        for k in range(0, 7):
            if base == "pdf" and k > 4 and tier == "quick":
                continue
            obs.append(power_ob(base, k))
    obs += [summary_ob("normal_cdf"), summary_ob("normal_pdf"), summary_ob("binom")]
    return obs


FLOORS = {"group:table": 1, "group:indicator": 6, "group:homogeneity": 6, "group:pdf": 9, "group:closed-form": 9, "group:power": 12, "group:zero-mass": 10, "group:pdf-moments": 6, "group:summary": 3}
LEVEL = "other"
EXPLANATION = ("Partial: dispatch table, support indicator, degree-one homogeneity of integrate('1'|'x'|'x**2') in the base mass and that the normalised variant evaluates the "
               "NORMALISED base density, for finite generic limits; closed forms of the integrals of 1, x, x**2 in Phi / phi; integrate('x**k') for every k in 0..6 (lax.scan unrolled) "
               "against the raw-moment Stein recursion; the bodies of misc.normal_cdf / normal_pdf / binom (replaced by Phi / phi / the binomial coefficient everywhere else) equal those "
               "functions and the cdf is not assembled from the cancelling 1 + erf form. Tail accuracy beyond that structural rule, one-sided limits of the x**k recursion and numerical additivity are NOT decided.")

"""C11 (partial) - Bayesian updating is path independent: single-step equivalence of the three posterior routes for a generic
Gaussian prior (the induction step over observation sequences).  Evidence / Kalman clauses are not decided."""
from .. import nf, build, model
from ..nf import Val
from ..dim import D
from ..build import sym
from ..core import Ob, Refuted
from ..interp import IdxArr
from .common import funcs_of
from . import drivers
from .drivers import setup_cond

PROP = "C11"
C = "gaussian_toolbox/conditional.py"


def routes_ob(prog, cls, which):
    def run():
        I, c, px, sizes = setup_cond(cls, "1/1")
        Rc, Rx, Dy, Dx = sizes
        N = sym("N")
        y = build.points("y", N, Dy)
        # route (a): sequential update = conditional transformation, then conditioning on the observed value
        post = I.call_method(c, "affine_conditional_transformation", [px])
        pa = I.call_method(post, "condition_on_x", [y])                 # batch N
        d = []
        if which == "joint":
            # route (b): joint transformation followed by coordinate conditioning on the y block
            joint = I.call_method(c, "affine_joint_transformation", [px])
            dims_y = IdxArr("ydims", Dy, kind="arange", lo=Dx)
            cb = I.call_method(joint, "condition_on", [dims_y])
            pb = I.call_method(cb, "condition_on_x", [y])
            other, name = pb, "joint + condition_on"
        else:
            # route (c): prior x likelihood factor, normalised
            fac = I.call_method(c, "set_y", [y])
            prod = I.call_method(px, "multiply", [fac])
            other, name = I.call_method(prod, "get_density", []), "prior * set_y(y), normalised"
        for fld in ("mu", "Lambda"):
            d += [(fld,) + tuple(q) for q in nf.diff(other.f[fld], pa.f[fld], what=f"{name} vs sequential: {fld}")[:4]]
        # covariances: both are inverses of the (proved equal) precision; compare by the inverse-pair rule
        from .common import inverse_pair_diffs
        d += [("Sigma",) + tuple(q) for q in inverse_pair_diffs(other.f["Sigma"], pa.f["Lambda"], f"{name} Sigma * sequential Lambda: ")[:3]]
        return d, dict(funcs=funcs_of(I))
    return Ob(f"routes/{cls}/{which}", run,
              "posterior of one observation: (a) conditional transformation + condition_on_x == (b) joint transformation + coordinate conditioning == (c) prior * set_y(y) normalised (mean, precision, covariance), for a generic Gaussian prior",
              f"{C}::ConditionalGaussianPDF.affine_conditional_transformation", group="routes")


def obligations(tier):
    prog = model.load()
    obs = []
    for cls in drivers.COND_CLASSES:
        for which in ("joint", "product"):
            obs.append(routes_ob(prog, cls, which))
    return obs


FLOORS = {"group:routes": 8}
LEVEL = "other"
EXPLANATION = ("PARTIAL: for every linear conditional class and a GENERIC Gaussian prior (atoms satisfying the representation invariant) the posterior after one observation is the "
               "same normal form through the three routes of the property. Because the prior is generic and every route returns an invariant density (C04), the equality "
               "extends by induction to any number of observations; order independence of the product route is commutativity of natural-parameter addition (C01). "
               "NOT decided: equality of the accumulated evidence with the log-integral (needs the Woodbury identity; and is false today whenever Dx != Dy because of the known "
               "finding F1 in set_y), and the Kalman-filter clause against a dense joint over all states.")

"""C11 (partial) - Bayesian updating is path independent: single-step equivalence of the three posterior routes for a generic
Gaussian prior (the induction step over observation sequences).  Evidence / Kalman clauses are not decided."""
from .. import nf, build, model
from ..nf import Val
from ..dim import D
from ..build import sym
from ..core import Ob, Refuted
from ..interp import IdxArr
from .common import funcs_of
from . import drivers
from .drivers import setup_cond

PROP = "C11"
C = "gaussian_toolbox/conditional.py"


def routes_ob(prog, cls, which):
    def run():
        I, c, px, sizes = setup_cond(cls, "1/1")
        Rc, Rx, Dy, Dx = sizes
        N = sym("N")
        y = build.points("y", N, Dy)
        # route (a): sequential update = conditional transformation, then conditioning on the observed value
        post = I.call_method(c, "affine_conditional_transformation", [px])
        pa = I.call_method(post, "condition_on_x", [y])                 # batch N
        d = []
        if which == "joint":
            # route (b): joint transformation followed by coordinate conditioning on the y block
            joint = I.call_method(c, "affine_joint_transformation", [px])
            dims_y = IdxArr("ydims", Dy, kind="arange", lo=Dx)
            cb = I.call_method(joint, "condition_on", [dims_y])
            pb = I.call_method(cb, "condition_on_x", [y])
            other, name = pb, "joint + condition_on"
        else:
            # route (c): prior x likelihood factor, normalised
            fac = I.call_method(c, "set_y", [y])
            prod = I.call_method(px, "multiply", [fac])
            other, name = I.call_method(prod, "get_density", []), "prior * set_y(y), normalised"
        for fld in ("mu", "Lambda"):
            d += [(fld,) + tuple(q) for q in nf.diff(other.f[fld], pa.f[fld], what=f"{name} vs sequential: {fld}")[:4]]
        # covariances: both are inverses of the (proved equal) precision; compare by the inverse-pair rule
        from .common import inverse_pair_diffs
        d += [("Sigma",) + tuple(q) for q in inverse_pair_diffs(other.f["Sigma"], pa.f["Lambda"], f"{name} Sigma * sequential Lambda: ")[:3]]
        return d, dict(funcs=funcs_of(I))
    return Ob(f"routes/{cls}/{which}", run,
              "posterior of one observation: (a) conditional transformation + condition_on_x == (b) joint transformation + coordinate conditioning == (c) prior * set_y(y) normalised (mean, precision, covariance), for a generic Gaussian prior",
              f"{C}::ConditionalGaussianPDF.affine_conditional_transformation", group="routes")


def evidence_ob(prog, cls):
    """log-integral of prior x likelihood factor == predictive log-density ln p(y) of the marginal transformation (one observation batch;
    with the routes obligation and C04 this is the induction step for the accumulated evidence of any sequence).

    Stated axioms: Woodbury  Inv(Sigma + M Sx M') = L - L M Inv(Lx + M'LM) M' L  and the determinant lemma
    LnDet(Sigma + M Sx M') = LnDet(Sigma) + LnDet(Sx) + LnDet(Lx + M'LM), applied by substituting the opaque heads the analysed code
    produced for the left-hand sides; the remaining difference is reduced with the defining relation X Inv(X) = I of the posterior covariance."""
    anchor = f"{C}::ConditionalGaussianPDF.set_y"

    def run():
        from .drivers import cond_params
        I, c, px, sizes = setup_cond(cls, "1/1")
        Rc, Rx, Dy, Dx = sizes
        N = sym("N")
        y = build.points("y", N, Dy)
        fac = I.call_method(c, "set_y", [y])
        prod = I.call_method(px, "multiply", [fac])
        ev = I.call_method(prod, "log_integral", [])                      # [N]
        py = I.call_method(c, "affine_marginal_transformation", [px])
        ref = I.call_method(py, "evaluate_ln", [y])                       # [1, N]
        post = I.call_method(c, "affine_conditional_transformation", [px])
        M, b, S, L, lds = cond_params(c, Rc, Dy, Dx)
        Sp = post.f["Sigma"]
        d = [("Sigma_y",) + tuple(q) for q in nf.diff(py.f["Sigma"], nf.add(S, nf.einsum("ryx,rxz,rwz->ryw", M, px.f["Sigma"], M)), what="Sigma_y")[:3]]
        Lp_ref = nf.add(px.f["Lambda"], nf.einsum("ryx,ryw,rwz->rxz", M, L, M))
        d += [("posterior covariance is not Inv(Lx + M'LM)",) + tuple(q) for q in nf.diff(Sp, nf.inverse(Lp_ref)[0], what="Sigma_post")[:3]]
        woodbury = nf.add(L, nf.einsum("ryz,rzx,rxw,rvw,rvu->ryu", L, M, Sp, M, L), -1)
        lemma = nf.add(nf.add(lds, px.f["ln_det_Sigma"]), nf.logdet(Lp_ref))
        dv = nf.add(ev, Val(ref.axes[1:], ref.terms), -1)
        dv = nf.subst_head_top(dv, py.f["Lambda"], woodbury, "Woodbury identity")
        dv = nf.subst_head_top(dv, py.f["ln_det_Sigma"], lemma, "determinant lemma")
        dv = nf.eliminate_inverse(dv)
        d += [("log-integral minus predictive log-density",) + tuple(q) for q in nf.diff(dv, nf.scale(dv, 0), what="evidence")[:6]]
        return d, dict(funcs=funcs_of(I), construct=anchor)
    return Ob(f"evidence/{cls}", run,
              "log of the integral of prior(x) * set_y(y)(x) == ln N(y; M mu + b, Sigma + M Sigma_x M') (the predictive log-density returned by the marginal transformation), "
              "by the Woodbury identity and the determinant lemma (stated axioms)",
              anchor, group="evidence")


def obligations(tier):
    prog = model.load()
    obs = []
    for cls in drivers.COND_CLASSES:
        for which in ("joint", "product"):
            obs.append(routes_ob(prog, cls, which))
    for cls in drivers.COND_CLASSES:
        obs.append(evidence_ob(prog, cls))
    from .common import logdomain_ob
    obs.append(logdomain_ob(prog, "logdomain"))
    return obs


FLOORS = {"group:routes": 8, "group:evidence": 4, "group:logdomain": 1}
LEVEL = "other"
EXPLANATION = ("PARTIAL: for every linear conditional class and a GENERIC Gaussian prior (atoms satisfying the representation invariant) the posterior after one observation is the "
               "same normal form through the three routes of the property, and the log-integral of prior x likelihood factor equals the predictive log-density of the marginal "
               "transformation (Woodbury identity and determinant lemma as stated axioms) - refuted today for the general classes by exactly the constant (Dy-Dx)/2 ln 2pi of the "
               "known finding F1 in set_y, proved for the identity-mean classes. Because the prior is generic and every route returns an invariant density (C04), both equalities "
               "extend by induction to any number of observations; order independence of the product route is commutativity of natural-parameter addition (C01). "
               "NOT decided: the Kalman-filter clause against a dense joint over all states.")

#!/usr/bin/env python3
"""Entry point:  python3 check.py --property C03 --tier quick|thorough [--replay path] [--jobs N]"""
import argparse
import importlib
import json
import os
import sys
import time

sys.path.insert(0, os.path.dirname(os.path.abspath(__file__)))


def main():
    ap = argparse.ArgumentParser()
    ap.add_argument("--property", required=True)
    ap.add_argument("--tier", default=os.environ.get("VERIF_TIER", "quick"), choices=["quick", "thorough"])
    ap.add_argument("--replay")
    ap.add_argument("--jobs", type=int, default=int(os.environ.get("GTSA_JOBS", "0")) or (os.cpu_count() or 4))
    ap.add_argument("--only", help="substring filter on obligation keys (debugging)")
    ap.add_argument("--verbose", action="store_true")
    a = ap.parse_args()
    prop = a.property.upper()
    t0 = time.time()
    from gtsa import core, model
    try:
        mod = importlib.import_module(f"gtsa.props.{prop.lower()}")
        obs = mod.obligations(a.tier)
    except model.AnchorError as e:
        print(f"ANALYSIS-ERROR property={prop}: anchor vanished: {e}")
        return 2
    except Exception as e:
        import traceback
        traceback.print_exc()
        print(f"ANALYSIS-ERROR property={prop}: {type(e).__name__}: {e}")
        return 2
    if a.replay:
        rp = json.load(open(a.replay))
        obs = [o for o in obs if o.key == rp["key"]]
        if not obs:
            print(f"ANALYSIS-ERROR property={prop}: obligation {rp['key']} no longer exists")
            return 2
        r = core.run_one(obs[0])
        print(json.dumps({k: v for k, v in r.items() if k != "stats"}, indent=1, default=str))
        return 0 if r["verdict"] == core.PROVED else (1 if r["verdict"] == core.REFUTED else 2)
    if a.only:
        obs = [o for o in obs if a.only in o.key]
    try:
        results = core.run_all(obs, a.jobs)
    except Exception as e:
        import traceback
        traceback.print_exc()
        print(f"ANALYSIS-ERROR property={prop}: {type(e).__name__}: {e}")
        return 2
    if a.verbose:
        for r in results:
            print(f"  {r['verdict']:9s} {r['wall_s']:6.2f}s {r['key']}" + ("" if r["verdict"] == core.PROVED else f"   {str(r.get('detail'))[:300]}"))
    st_fail = []
    if a.tier == "thorough" and not a.only and not os.environ.get("GTSA_SELFTEST"):
        from gtsa import selftest
        st = selftest.selftest(prop, jobs=max(2, a.jobs // 2))
        os.environ["GTSA_SELFTEST_RESULT"] = json.dumps(dict(
            rule="single-site edits of /repo in scratch copies: firing edits must be refuted naming the construct, behaviour-preserving edits must stay proved",
            fired=st["fired"], silent_ok=st["silent_ok"], missed=st["missed"], alarmed=st["alarmed"], stale=st["stale"], notes=st["details"]))
        for k in ("missed", "alarmed", "stale"):
            for mid in st[k]:
                st_fail.append(f"SELFTEST-FAILED property={prop} mutant={mid} ({k}): {st['details'].get(mid, '')[:300]}")
        print(f"[{prop}/selftest] firing edits detected {len(st['fired'])}/{len(st['fired']) + len(st['missed'])}, "
              f"behaviour-preserving edits silent {len(st['silent_ok'])}/{len(st['silent_ok']) + len(st['alarmed'])}, stale {len(st['stale'])}")
    floors = getattr(mod, "FLOORS", {}) if not a.only else {}
    if hasattr(mod, "floors"):
        floors = mod.floors(a.tier) if not a.only else {}
    rc = core.finish(prop, a.tier, obs, results, getattr(mod, "LEVEL", "other"), floors, t0,
                     extra_cov=getattr(mod, "extra_coverage", lambda t: None)(a.tier),
                     assumptions=getattr(mod, "ASSUMPTIONS", None), explanation=getattr(mod, "EXPLANATION", ""))
    for line in st_fail:
        print(line)
    if st_fail and rc == 0:
        rc = 2
    return rc


if __name__ == "__main__":
    try:
        rc = main()
    except SystemExit:
        raise
    except BaseException as e:
        import traceback
        traceback.print_exc()
        print(f"ANALYSIS-ERROR: {type(e).__name__}: {e}")
        rc = 2
    sys.stdout.flush()
    os._exit(rc)

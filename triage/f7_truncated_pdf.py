"""Triage F7: TruncatedGaussianPDF built directly on an un-normalised measure evaluates measure(x)/Z_trunc (off by the measure's mass)."""
import jax; jax.config.update("jax_enable_x64", True)
import numpy as np, jax.numpy as jnp
from gaussian_toolbox import measure
from gaussian_toolbox.experimental import truncated_measure as tm
u = measure.GaussianMeasure(Lambda=jnp.array([[[2.0]]]), nu=jnp.array([[0.5]]), ln_beta=jnp.array([1.3]))
p = tm.TruncatedGaussianPDF(measure=u, lower_limit=-0.5, upper_limit=1.0)
xs = jnp.linspace(-0.5, 1.0, 20001)[:, None]
vals = p(xs)[0]
print("F7 numerical integral of the 'density' over its support:", float(jnp.trapezoid(vals, xs[:, 0])), " expected 1; mass of base =", float(u.integral()[0]))

"""F1 seen through C11: the log-integral of prior x set_y(y) is off from the predictive log-density ln N(y; M mu + b, Sigma + M Sx M')
by (Dy - Dx)/2 ln(2 pi) (the normaliser of the likelihood factor uses Dx).  Demonstration, not a check.
Run: PYTHONPATH=<checkout> /venv/bin/python triage/f1_evidence.py"""
import jax
jax.config.update("jax_enable_x64", True)
import jax.numpy as jnp
import numpy as np
from scipy.stats import multivariate_normal
from gaussian_toolbox import pdf, conditional

rng = np.random.default_rng(0)
bad = 0
for Dx, Dy in ((3, 2), (2, 3), (2, 2)):
    A = rng.normal(size=(Dx, Dx)); Sx = A @ A.T + Dx * np.eye(Dx)
    B = rng.normal(size=(Dy, Dy)); S = B @ B.T + Dy * np.eye(Dy)
    M = rng.normal(size=(Dy, Dx)); b = rng.normal(size=Dy); mu = rng.normal(size=Dx); y = rng.normal(size=(4, Dy))
    px = pdf.GaussianPDF(Sigma=jnp.array(Sx[None]), mu=jnp.array(mu[None]))
    c = conditional.ConditionalGaussianPDF(M=jnp.array(M[None]), b=jnp.array(b[None]), Sigma=jnp.array(S[None]))
    ev = np.array(px.multiply(c.set_y(jnp.array(y))).log_integral())
    ref = multivariate_normal(M @ mu + b, S + M @ Sx @ M.T).logpdf(y)
    off = ev - ref
    print(f"Dx={Dx} Dy={Dy}: log-integral - ln p(y) = {off}   (Dy-Dx)/2 ln 2pi = {(Dy - Dx) / 2 * np.log(2 * np.pi):.6f}")
    bad += bool(np.max(np.abs(off)) > 1e-8)
raise SystemExit(1 if bad else 0)

"""Triage F4: affine_joint_transformation with a batch of priors / a batch of conditionals (run with /venv/bin/python)."""
import jax; jax.config.update("jax_enable_x64", True)
import numpy as np, jax.numpy as jnp
from gaussian_toolbox import pdf, conditional
rng = np.random.default_rng(0)
def spd(R, D):
    A = rng.normal(size=(R, D, D)); return jnp.asarray(A @ A.transpose(0, 2, 1) + D * np.eye(D))
def run(cls, Rc, Rx, Dx, Dy):
    Sx = spd(Rx, Dx); px = pdf.GaussianPDF(Sigma=Sx, mu=jnp.asarray(rng.normal(size=(Rx, Dx))))
    S = spd(Rc, Dy)
    if cls == "general":
        c = conditional.ConditionalGaussianPDF(M=jnp.asarray(rng.normal(size=(Rc, Dy, Dx))), b=jnp.asarray(rng.normal(size=(Rc, Dy))), Sigma=S)
    else:
        c = conditional.ConditionalIdentityGaussianPDF(Sigma=S)
    try:
        j = c.affine_joint_transformation(px)
    except Exception as e:
        return f"RAISES {type(e).__name__}: {str(e)[:90]}"
    z = jnp.asarray(rng.normal(size=(3, Dx + Dy)))
    got = j.evaluate_ln(z)
    ref = []
    for k in range(Rc * Rx):
        rc, rx = divmod(k, Rx)
        ref.append(c.slice(jnp.array([rc])).condition_on_x(z[:, :Dx]).evaluate_ln(z[:, Dx:], element_wise=True) + px.slice(jnp.array([rx])).evaluate_ln(z[:, :Dx])[0])
    err = float(jnp.max(jnp.abs(got - jnp.stack(ref))))
    ld = float(jnp.max(jnp.abs(j.ln_det_Sigma - jnp.linalg.slogdet(j.Sigma)[1])))
    return f"max|joint - p(y|x)p(x)| = {err:.2e}, max|ln_det_Sigma - slogdet(Sigma)| = {ld:.2e}"
for cls in ("general", "identity"):
    for (Rc, Rx) in ((1, 1), (3, 1), (1, 3)):
        for (Dx, Dy) in ((3, 2), (2, 3)) if cls == "general" else ((2, 2),):
            print(cls, f"Rc={Rc} Rx={Rx} Dx={Dx} Dy={Dy}:", run(cls, Rc, Rx, Dx, Dy))

"""F11: TruncatedGaussianMeasure.integrate("x**k", k=0) returns mass * (1 + L_1) instead of the truncated mass.

_get_moment(order) always builds the rows L_0, L_1 (plus the scanned L_2..L_order) and multiplies them with a
coefficient column of length order+1; for order = 0 the column has one row, broadcasting repeats it over both
rows and the sum adds L_1 = (phi(alpha) - phi(beta)) / Z.   Demonstration (not a check): compare with quadrature.
Run:  PYTHONPATH=<checkout> /venv/bin/python triage/f11_truncated_moment_k0.py
"""
import jax
jax.config.update("jax_enable_x64", True)
import jax.numpy as jnp
import numpy as np
from scipy.integrate import quad
from gaussian_toolbox import measure
from gaussian_toolbox.experimental.truncated_measure import TruncatedGaussianMeasure

L, nu, lb, a, b = 1.0, 0.2, -0.1, -1.0, 2.0
u = measure.GaussianMeasure(Lambda=jnp.array([[[L]]]), nu=jnp.array([[nu]]), ln_beta=jnp.array([lb]))
t = TruncatedGaussianMeasure(measure=u, lower_limit=jnp.array([[a]]), upper_limit=jnp.array([[b]]))
bad = 0
for k in range(0, 5):
    got = float(t.integrate("x**k", k=k)[0, 0])
    ref = quad(lambda x: x**k * np.exp(-0.5 * L * x * x + nu * x + lb), a, b)[0]
    ok = abs(got - ref) <= 1e-8 * max(1.0, abs(ref))
    bad += not ok
    print(f"k={k}: library {got:.10f}  quadrature {ref:.10f}  {'ok' if ok else 'WRONG'}")
raise SystemExit(1 if bad else 0)

"""Triage F8: hadamard of a single-component measure with a batch of linear / constant factors is not a well-formed batch."""
import jax; jax.config.update("jax_enable_x64", True)
import numpy as np, jax.numpy as jnp
from gaussian_toolbox import measure, factor
rng = np.random.default_rng(2)
D, R = 2, 3
u = measure.GaussianMeasure(Lambda=jnp.eye(D)[None] * 2.0, nu=jnp.asarray(rng.normal(size=(1, D))), ln_beta=jnp.zeros(1))
for name, f in (("LinearFactor", factor.LinearFactor(nu=jnp.asarray(rng.normal(size=(R, D))), ln_beta=jnp.asarray(rng.normal(size=(R,))))),
                ("ConstantFactor", factor.ConstantFactor(ln_beta=jnp.asarray(rng.normal(size=(R,))), num_dim=D))):
    for full in (False, True):
        r = u.hadamard(f, update_full=full)
        x = jnp.asarray(rng.normal(size=(4, D)))
        ok = bool(jnp.allclose(r.evaluate_ln(x), u.evaluate_ln(x) + f.evaluate_ln(x)))
        s = r.slice(jnp.array([2]))
        print(f"F8 {name} full={full}: R={r.R} shapes Lambda{r.Lambda.shape} nu{r.nu.shape} ln_beta{r.ln_beta.shape}; values ok={ok}; slice([2]).Lambda finite={bool(jnp.all(jnp.isfinite(s.Lambda)))}")

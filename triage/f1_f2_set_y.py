"""Triage F1 (set_y normaliser uses Dx instead of Dy) and F2 (identity set_y is not a batch of N). Run with /venv/bin/python."""
import jax; jax.config.update("jax_enable_x64", True)
import numpy as np, jax.numpy as jnp
from gaussian_toolbox import conditional
rng = np.random.default_rng(1)
Dx, Dy, N = 3, 2, 4
A = rng.normal(size=(1, Dy, Dy)); S = jnp.asarray(A @ A.transpose(0, 2, 1) + np.eye(Dy))
c = conditional.ConditionalGaussianPDF(M=jnp.asarray(rng.normal(size=(1, Dy, Dx))), b=jnp.asarray(rng.normal(size=(1, Dy))), Sigma=S)
y = jnp.asarray(rng.normal(size=(N, Dy))); x = jnp.asarray(rng.normal(size=(5, Dx)))
lhs = c.set_y(y).evaluate_ln(x)                       # [N, 5]
rhs = c.condition_on_x(x).evaluate_ln(y).T            # [N, 5]
print("F1 general Dx=3,Dy=2: set_y(y)(x) - cond(x)(y) =", np.unique(np.round(np.asarray(lhs - rhs), 10)), " expected 0; (Dy-Dx)/2*ln(2pi) =", (Dy - Dx) / 2 * np.log(2 * np.pi))
ci = conditional.ConditionalIdentityGaussianPDF(Sigma=S)
f = ci.set_y(y)
print("F2 identity R=1, N=4: shapes Lambda", f.Lambda.shape, "nu", f.nu.shape, "ln_beta", f.ln_beta.shape, "-> R reported", f.R)
x2 = jnp.asarray(rng.normal(size=(5, Dy)))
tot = f.product().evaluate_ln(x2)[0]
ref = ci.condition_on_x(x2).evaluate_ln(y).sum(axis=1)
print("F2 product() vs sum of log-likelihoods: max abs diff", float(jnp.max(jnp.abs(tot - ref))))

"""Triage F5/F6: pytree registration, transformations with objects, to_dict/from_dict. Run with /venv/bin/python."""
import jax; jax.config.update("jax_enable_x64", True)
import numpy as np, jax.numpy as jnp
from gaussian_toolbox import pdf, factor, measure, conditional, approximate_conditional as ac
def attempt(name, fn):
    try:
        print(f"F5 {name}: ok ->", fn())
    except Exception as e:
        print(f"F5 {name}: RAISES {type(e).__name__}: {str(e)[:100]}")
p = pdf.GaussianPDF(Sigma=jnp.eye(2)[None] * 2.0, mu=jnp.ones((1, 2)))
x = jnp.array([[0.3, -0.2]])
attempt("tree_flatten/unflatten GaussianPDF", lambda: float(jax.tree_util.tree_unflatten(*reversed(jax.tree_util.tree_flatten(p))).evaluate_ln(x)[0, 0] - p.evaluate_ln(x)[0, 0]))
attempt("jit with density argument", lambda: float(jax.jit(lambda q, z: q.evaluate_ln(z))(p, x)[0, 0] - p.evaluate_ln(x)[0, 0]))
u = measure.GaussianMeasure(Lambda=jnp.eye(2)[None], nu=jnp.ones((1, 2)))
attempt("jit returning a measure", lambda: float(jax.jit(lambda q: q.multiply(u))(p).integral()[0] - p.multiply(u).integral()[0]))
cf = factor.ConstantFactor(ln_beta=jnp.zeros(2), num_dim=3)
attempt("jit with ConstantFactor (int field)", lambda: jax.jit(lambda f: f.evaluate_ln(jnp.zeros((1, 3))))(cf).shape)
attempt("ConstantFactor from_dict(to_dict())", lambda: factor.ConstantFactor.from_dict(cf.to_dict()).D)
ls = ac.LSEMGaussianConditional(M=jnp.ones((1, 1, 3)), b=jnp.zeros((1, 1)), W=jnp.array([[0.5, 1.0, 2.0]]), Sigma=jnp.eye(1)[None])
def rt():
    l2 = jax.tree_util.tree_unflatten(*reversed(jax.tree_util.tree_flatten(ls)))
    return (l2.W.shape, float(l2.w0[0]))
attempt("LSEM round trip keeps W/w0", rt)
def scan():
    c = conditional.ConditionalGaussianPDF(M=jnp.eye(2)[None] * .9, Sigma=jnp.eye(2)[None] * .1)
    def step(carry, _):
        return c.affine_marginal_transformation(carry), carry.mu[0]
    out, tr = jax.lax.scan(step, p, jnp.arange(3))
    return tr.shape
attempt("lax.scan with a density as carry", scan)

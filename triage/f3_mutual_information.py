"""Triage F3: mutual_information returns H(Y|X) - H(Y) = -I(X;Y). Run with /venv/bin/python."""
import jax; jax.config.update("jax_enable_x64", True)
import numpy as np, jax.numpy as jnp
from gaussian_toolbox import pdf, conditional
# x ~ N(0,1), y = x + eps, eps ~ N(0,1): I(X;Y) = 1/2 ln(2) = 0.3466 > 0
px = pdf.GaussianPDF(Sigma=jnp.ones((1, 1, 1)), mu=jnp.zeros((1, 1)))
c = conditional.ConditionalGaussianPDF(M=jnp.ones((1, 1, 1)), b=jnp.zeros((1, 1)), Sigma=jnp.ones((1, 1, 1)))
ci = conditional.ConditionalIdentityGaussianPDF(Sigma=jnp.ones((1, 1, 1)))
print("F3 general :", float(c.mutual_information(px)[0]), " expected", 0.5 * np.log(2.0))
print("F3 identity:", float(ci.mutual_information(px)[0]), " expected", 0.5 * np.log(2.0))

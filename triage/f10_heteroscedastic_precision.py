"""Triage F10 (was U1): HeteroscedasticConditional.condition_on_x returns a precision / log-determinant that are not those of its covariance when A has more columns than rows."""
import jax; jax.config.update("jax_enable_x64", True)
import numpy as np, jax.numpy as jnp
from gaussian_toolbox import approximate_conditional as ac
rng = np.random.default_rng(5)
Dx, Dy, Dk = 2, 2, 2
x = jnp.asarray(rng.normal(size=(3, Dx)))
for Da in (2, 3):
    h = ac.HeteroscedasticExpConditional(M=jnp.asarray(rng.normal(size=(1, Dy, Dx))), b=jnp.zeros((1, Dy)), A=jnp.asarray(rng.normal(size=(1, Dy, Da))), W=jnp.asarray(rng.normal(size=(Dk, Dx + 1))) * .5)
    p = h.condition_on_x(x)
    e1 = float(jnp.max(jnp.abs(jnp.einsum("nab,nbc->nac", p.Sigma, p.Lambda) - jnp.eye(Dy))))
    e2 = float(jnp.max(jnp.abs(p.ln_det_Sigma - jnp.linalg.slogdet(p.Sigma)[1])))
    print(f"F10 Dy={Dy} Da={Da}: max|Sigma Lambda - I| = {e1:.3e}, max|ln_det_Sigma - slogdet(Sigma)| = {e2:.3e}")

"""Triage F9: slice() inherited by approximate / NN-controlled conditionals."""
import jax; jax.config.update("jax_enable_x64", True)
import numpy as np, jax.numpy as jnp
from gaussian_toolbox import conditional, approximate_conditional as ac
rng = np.random.default_rng(3)
Dx, Dy, Dk = 2, 2, 3
x = jnp.asarray(rng.normal(size=(4, Dx)))
c = ac.LRBFGaussianConditional(M=jnp.asarray(rng.normal(size=(1, Dy, Dk + Dx))), b=jnp.asarray(rng.normal(size=(1, Dy))),
                               mu=jnp.asarray(rng.normal(size=(Dk, Dx))), length_scale=jnp.ones((Dk, Dx)), Sigma=jnp.eye(Dy)[None])
try:
    s = c.slice(jnp.array([0]))
    print("F9 LRBF slice ->", type(s).__name__)
    print("F9 conditional mean of slice:", end=" ")
    print(np.asarray(s.get_conditional_mu(x)).shape)
except Exception as e:
    print("F9 LRBF: slice returns", type(s).__name__, "whose get_conditional_mu raises", type(e).__name__, str(e)[:80])
h = ac.HeteroscedasticExpConditional(M=jnp.asarray(rng.normal(size=(1, Dy, Dx))), b=jnp.zeros((1, Dy)), A=jnp.asarray(rng.normal(size=(1, Dy, 3))), W=jnp.asarray(rng.normal(size=(2, Dx + 1))) * .1)
s = h.slice(jnp.array([0]))
d = float(jnp.max(jnp.abs(s.condition_on_x(x).Sigma - h.condition_on_x(x).Sigma)))
print("F9 HeteroscedasticExp slice ->", type(s).__name__, "; max |Sigma(x) difference| =", d)
n = conditional.NNControlGaussianConditional(Sigma=jnp.eye(Dy)[None], num_cond_dim=Dx, num_control_dim=1, control_func=lambda u: jnp.zeros((u.shape[0], Dy * (Dx + 1))))
try:
    n.slice(jnp.array([0])); print("F9 NNControl slice ok")
except Exception as e:
    print("F9 NNControl slice raises", type(e).__name__, str(e)[:80])

#!/bin/bash
# Runs every registered quick (or thorough) check against /repo (which must be clean) and validates manifest + evidence.
cd /verif
TIER=${1:-quick}
if [ -n "$(git -C /repo status --porcelain)" ]; then echo "/repo working tree is not clean"; git -C /repo status --short; exit 3; fi
fail=0
for p in $(python3 -c "import json;print(' '.join(c['property_id'] for c in json.load(open('MANIFEST.json'))['checks']))"); do
  out=$(python3 check.py --property $p --tier $TIER 2>&1); rc=$?
  echo "$out" | tail -1
  if [ $rc -ne 0 ]; then fail=1; echo "   -> exit $rc"; echo "$out" | grep -E "^(VIOLATION|ANALYSIS|SELFTEST)" | head -5; fi
done
python3-vt - <<'PY'
import json,jsonschema,glob,sys
m=json.load(open('/verif/MANIFEST.json')); jsonschema.validate(m,json.load(open('/root/.vp/MANIFEST.schema.json')))
sch=json.load(open('/root/.vp/EVIDENCE.schema.json')); bad=0
for c in m['checks']:
    e=json.load(open(c['evidence_file'])); jsonschema.validate(e,sch)
    cov=e['coverage']
    if e['level']=='proof' and cov['obligations']!=cov['discharged']: print('EVIDENCE MISMATCH',c['property_id'],cov['obligations'],cov['discharged']); bad=1
    if e['level']!=c['level_claimed']['category']: print('LEVEL MISMATCH',c['property_id']); bad=1
print('manifest + evidence valid' if not bad else 'PROBLEMS'); sys.exit(bad)
PY
[ $? -ne 0 ] && fail=1
exit $fail

#!/bin/bash
# Behaviour-preserving refactorings written by independent sub-agents (refactors/<file>/r*.diff, each verified by them with the
# existing tests and a numerical equivalence script): every quick check must stay silent (exit 0) on every one of them.
# Works on a scratch worktree of /repo HEAD; prints one line per patch and a summary; exit 1 if any check is not silent.
cd /verif
W=$(mktemp -d /tmp/gtsa_refactor_XXXX)
git -C /repo worktree add -q --detach $W/wt HEAD
mkdir -p $W/code; cp -r /verif/gtsa /verif/check.py /verif/known_findings.json $W/code/      # snapshot of the checker (it may be edited meanwhile)
BAD=0; N=0
for P in refactors/*/[rstu]*.diff; do
  N=$((N+1))
  git -C $W/wt checkout -q -- . ; git -C $W/wt clean -fdq gaussian_toolbox; rm -rf $W/wt/_gtsa_out
  git -C $W/wt apply /verif/$P || { echo "$P: does not apply"; BAD=$((BAD+1)); continue; }
  for p in C01 C02 C03 C04 C05 C06 C07 C08 C09 C10 C11 C12 C13 C14 C15 C16 C17 C18 C19 C20; do
    ( GTSA_REPO=$W/wt GTSA_SELFTEST=1 python3 $W/code/check.py --property $p --tier quick > $W/$p.log 2>&1; echo "$?" > $W/$p.rc ) &
  done
  wait
  OUT=""
  for p in C01 C02 C03 C04 C05 C06 C07 C08 C09 C10 C11 C12 C13 C14 C15 C16 C17 C18 C19 C20; do
    rc=$(cat $W/$p.rc)
    if [ "$rc" != "0" ]; then OUT="$OUT
   $p rc=$rc $(grep -m1 -E '^REFUTED|^ANALYSIS' $W/$p.log | cut -c1-300)"; fi
  done
  if [ -n "$OUT" ]; then BAD=$((BAD+1)); fi
  echo "$P: ${OUT:-silent}"
done
git -C /repo worktree remove --force $W/wt; rm -rf $W
echo "refactorings: $N, not silent: $BAD"
[ $BAD -eq 0 ]

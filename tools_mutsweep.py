#!/usr/bin/env python3
"""Mutation sweep (development tool, not a registered check): generates single-site AST mutants of /repo/gaussian_toolbox
(arithmetic operator swaps, numeric constant changes, einsum output permutations / operand-letter swaps, comparison swaps,
dropped negations, axis changes, transposed attribute names), runs the quick checks against a scratch copy of each
(GTSA_REPO, selftest mode: nothing is written to /verif) and lists the SURVIVORS - mutants no check reports.  Survivors are
either equivalent mutants, code outside every property, or holes in the checks; they are triaged by hand (DESIGN section 7).

usage: tools_mutsweep.py <outdir> [--jobs 16] [--limit N] [--files a.py,b.py] [--seed 0] [--from results.json [--status survived,incomplete]]
"""
import ast, copy, json, os, random, shutil, subprocess, sys, hashlib
from concurrent.futures import ThreadPoolExecutor

REPO = os.environ.get("GTSA_REPO", "/repo")
PKG = os.path.join(REPO, "gaussian_toolbox")
CHECKS = ["C02", "C01", "C03", "C05", "C06", "C07", "C08", "C09", "C10", "C11", "C13", "C15", "C19", "C20", "C17", "C16", "C18", "C14", "C12", "C04"]
SKIP_FILES = ("utils/jax_minimize_wrapper.py",)


def sites(tree):
    """yield (kind, node, description, mutator) for every mutable site inside function bodies"""
    out = []
    for fn in ast.walk(tree):
        if not isinstance(fn, (ast.FunctionDef,)):
            continue
        for n in ast.walk(fn):
            if isinstance(n, ast.BinOp):
                swap = {ast.Add: ast.Sub, ast.Sub: ast.Add, ast.Mult: ast.Div, ast.Div: ast.Mult}.get(type(n.op))
                if swap and not (isinstance(n.left, ast.Constant) and isinstance(n.left.value, str)):
                    out.append(("binop", n, f"{type(n.op).__name__}->{swap.__name__}", lambda m, swap=swap: setattr(m, "op", swap())))
            elif isinstance(n, ast.Constant) and isinstance(n.value, (int, float)) and not isinstance(n.value, bool):
                v = n.value
                new = {0: 1, 1: 2, 2: 3, 0.5: 1.5, -1: 1}.get(v, v + 1)
                out.append(("const", n, f"{v}->{new}", lambda m, new=new: setattr(m, "value", new)))
            elif isinstance(n, ast.Constant) and isinstance(n.value, str) and "->" in n.value and all(c.isalpha() or c in ",-> ." for c in n.value):
                lhs, rhs = n.value.split("->")
                r = rhs.strip()
                if len(set(r)) >= 2 and r.isalpha():
                    new = lhs + "->" + rhs.replace(r, r[1] + r[0] + r[2:])
                    out.append(("einsum-out", n, f"{n.value!r}->{new!r}", lambda m, new=new: setattr(m, "value", new)))
                ops = lhs.split(",")
                if len(ops) >= 2 and len(ops[0].strip()) >= 2:
                    o = ops[0].strip()
                    if o[-1] != o[-2]:
                        new = ",".join([ops[0].replace(o, o[:-2] + o[-1] + o[-2])] + ops[1:]) + "->" + rhs
                        out.append(("einsum-in", n, f"{n.value!r}->{new!r}", lambda m, new=new: setattr(m, "value", new)))
            elif isinstance(n, ast.Compare) and len(n.ops) == 1:
                swap = {ast.Lt: ast.LtE, ast.LtE: ast.Lt, ast.Gt: ast.GtE, ast.GtE: ast.Gt, ast.Eq: ast.NotEq, ast.NotEq: ast.Eq, ast.Is: ast.IsNot, ast.IsNot: ast.Is}.get(type(n.ops[0]))
                if swap:
                    out.append(("compare", n, f"{type(n.ops[0]).__name__}->{swap.__name__}", lambda m, swap=swap: setattr(m, "ops", [swap()])))
            elif isinstance(n, ast.UnaryOp) and isinstance(n.op, ast.USub) and not isinstance(n.operand, ast.Constant):
                out.append(("neg", n, "drop unary minus", lambda m: setattr(m, "op", ast.UAdd())))
            elif isinstance(n, ast.Attribute) and n.attr in ("Sigma", "Lambda", "mu", "nu", "ln_det_Sigma", "ln_det_Lambda", "lnZ", "ln_beta") and isinstance(n.ctx, ast.Load):
                new = {"Sigma": "Lambda", "Lambda": "Sigma", "mu": "nu", "nu": "mu", "ln_det_Sigma": "ln_det_Lambda", "ln_det_Lambda": "ln_det_Sigma",
                       "lnZ": "ln_beta", "ln_beta": "lnZ"}[n.attr]
                out.append(("attr", n, f".{n.attr}->.{new}", lambda m, new=new: setattr(m, "attr", new)))
    return out


def all_mutants(files=None):
    muts = []
    for root, _, fs in os.walk(PKG):
        for f in sorted(fs):
            if not f.endswith(".py"):
                continue
            path = os.path.join(root, f)
            rel = os.path.relpath(path, PKG)
            if rel in SKIP_FILES or (files and rel not in files):
                continue
            src = open(path).read()
            tree = ast.parse(src)
            # docstring constants are not sites
            doc = set()
            for n in ast.walk(tree):
                if isinstance(n, (ast.FunctionDef, ast.ClassDef, ast.Module)) and n.body and isinstance(n.body[0], ast.Expr) and isinstance(n.body[0].value, ast.Constant):
                    doc.add(id(n.body[0].value))
            # annotations are not sites
            for n in ast.walk(tree):
                if isinstance(n, ast.FunctionDef):
                    for a in n.args.posonlyargs + n.args.args + n.args.kwonlyargs:
                        if a.annotation is not None:
                            doc |= {id(k) for k in ast.walk(a.annotation)}
                    if n.returns is not None:
                        doc |= {id(k) for k in ast.walk(n.returns)}
                if isinstance(n, ast.AnnAssign):
                    doc |= {id(k) for k in ast.walk(n.annotation)}
            ss = [s for s in sites(tree) if id(s[1]) not in doc]
            # index of each site in a deterministic walk, so that it can be found again in a deep copy
            order = {id(n): i for i, n in enumerate(ast.walk(tree))}
            for kind, node, desc, fn in ss:
                muts.append(dict(file=rel, kind=kind, line=node.lineno, col=node.col_offset, desc=desc, idx=order[id(node)], apply=fn))
    return muts


def qualname(tree, line):
    best = ""
    for n in ast.walk(tree):
        if isinstance(n, (ast.FunctionDef, ast.ClassDef)) and n.lineno <= line <= (n.end_lineno or n.lineno):
            if isinstance(n, ast.ClassDef):
                best = n.name + "." + best.split(".")[-1] if best and not best.startswith(n.name) else (best or n.name)
    fns = [n for n in ast.walk(tree) if isinstance(n, ast.FunctionDef) and n.lineno <= line <= n.end_lineno]
    cls = [n for n in ast.walk(tree) if isinstance(n, ast.ClassDef) and n.lineno <= line <= n.end_lineno]
    return ".".join([c.name for c in cls[:1]] + [f.name for f in fns[:1]])


def run_mutant(k, m, outdir, code):
    wd = os.path.join(outdir, f"m{k}")
    shutil.rmtree(wd, ignore_errors=True)
    shutil.copytree(PKG, os.path.join(wd, "gaussian_toolbox"))
    path = os.path.join(wd, "gaussian_toolbox", m["file"])
    src = open(path).read()
    tree = ast.parse(src)
    node = list(ast.walk(tree))[m["idx"]]
    m["function"] = qualname(tree, m["line"])
    m["before"] = ast.unparse(node)[:80] if not isinstance(node, ast.Constant) else repr(node.value)
    m["apply"](node)
    try:
        new = ast.unparse(tree)
        compile(new, path, "exec")
    except Exception as e:
        shutil.rmtree(wd, ignore_errors=True)
        return dict(m, result="invalid", apply=None)
    open(path, "w").write(new)
    env = dict(os.environ, GTSA_REPO=wd, GTSA_SELFTEST="1", GTSA_JOBS="1")
    res, by, incomplete = "survived", [], []
    for p in CHECKS:
        r = subprocess.run([sys.executable, os.path.join(code, "check.py"), "--property", p, "--tier", "quick"], env=env, capture_output=True, text=True)
        if r.returncode == 1:
            by.append(p)
            res = "reported"
            break
        if r.returncode == 2:
            incomplete.append(p)
    if res == "survived" and incomplete:
        res = "incomplete"
    shutil.rmtree(wd, ignore_errors=True)
    return dict({k_: v for k_, v in m.items() if k_ != "apply"}, result=res, by=by, incomplete=incomplete)


def main():
    outdir = sys.argv[1]
    jobs = int(sys.argv[sys.argv.index("--jobs") + 1]) if "--jobs" in sys.argv else 16
    limit = int(sys.argv[sys.argv.index("--limit") + 1]) if "--limit" in sys.argv else None
    files = sys.argv[sys.argv.index("--files") + 1].split(",") if "--files" in sys.argv else None
    seed = int(sys.argv[sys.argv.index("--seed") + 1]) if "--seed" in sys.argv else 0
    os.makedirs(outdir, exist_ok=True)
    code = os.path.join(outdir, "code")
    shutil.rmtree(code, ignore_errors=True)
    os.makedirs(code)
    for x in ("gtsa", "check.py", "known_findings.json"):
        src = os.path.join("/verif", x)
        (shutil.copytree if os.path.isdir(src) else shutil.copy)(src, os.path.join(code, x))
    muts = all_mutants(files)
    random.Random(seed).shuffle(muts)
    if "--from" in sys.argv:
        # re-run the mutants of an earlier sweep that had one of the given outcomes (default: survived, incomplete)
        prev = json.load(open(sys.argv[sys.argv.index("--from") + 1]))
        st = sys.argv[sys.argv.index("--status") + 1].split(",") if "--status" in sys.argv else ["survived", "incomplete"]
        want = {(r["file"], r["idx"], r["kind"], r["desc"]) for r in prev if r["result"] in st}
        muts = [m for m in muts if (m["file"], m["idx"], m["kind"], m["desc"]) in want]
    if limit:
        muts = muts[:limit]
    print(f"{len(muts)} mutants", flush=True)
    results = []
    with ThreadPoolExecutor(jobs) as ex:
        futs = [ex.submit(run_mutant, k, m, outdir, code) for k, m in enumerate(muts)]
        for k, f in enumerate(futs):
            r = f.result()
            results.append(r)
            print(k, r["result"], r["file"], r.get("function"), r["line"], r["kind"], r["desc"], r.get("by"), r.get("incomplete"), flush=True)
            json.dump(results, open(os.path.join(outdir, "results.json"), "w"), indent=1)
    from collections import Counter
    print(Counter(r["result"] for r in results))


if __name__ == "__main__":
    main()

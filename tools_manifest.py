#!/usr/bin/env python3
"""Regenerates MANIFEST.json from the property modules that exist (keeps not_applicable current)."""
import json, os, importlib, sys
sys.path.insert(0, os.path.dirname(os.path.abspath(__file__)))
BASE = "cd /repo && /venv/bin/python -m pytest -ra -q -p no:cacheprovider --timeout=900 --continue-on-collection-errors"
TEXT = {
 "C01": ("proof", "Normal-form proof, for every factor kind x measure cache state x op x update_full x batch configuration, that the natural parameters of the product evaluate (at a generic point set) to ln u_i + ln f_j in the documented component layout; empty write set on operands. Float rounding is not decided."),
 "C02": ("proof", "Normal-form proofs of the closed-form mass, normalisation, every density-constructor argument combination, utils/linalg.py against its summary, and a who-may-construct scan proving that each library site constructing a density passes a coherent (Sigma, Lambda, ln det) triple or only (Sigma, mu). Heteroscedastic condition_on_x is unclaimed (undecidable in the theory). Numerical quality of Cholesky is not decided."),
 "C03": ("proof", "Every key of the integration table is proved equal, as a polynomial identity over rigid sizes R,D,K,L,M and generic tensors, to mass x the Wick/Isserlis moment generated from the integrand string; measure kinds cold/warm/diag/pdf x coefficient regimes omitted/shared/per-component (covering set quick, full product up to quadratic thorough)."),
 "C05": ("proof", "get_marginal (full/diag) and get_density_of_linear_sum: returned (mu, Sigma) equal (P mu, P Sigma P') / (W mu + b, W Sigma W') as normal forms with one selection head; precision/log-det are value-number equal to the constructor's derivation. That the marginal equals the integral over dropped coordinates is Gaussian theory (trusted)."),
 "C06": ("proof", "condition_on / condition_on_explicit equal the information-form conditioning formulas as normal forms for generic index sets; condition_on_x of each conditional class equals N(Mx+b, Sigma) in layout r*N+n. The pointwise product rule (needs the block-inverse theorem) is not decided."),
 "C07": ("proof", "affine_joint_transformation of every linear conditional class, contexts (Rc,Rx) in {1/1,n/1,1/n} x {Dx>Dy, Dx<=Dy}: mean, covariance blocks, precision blocks, ln det Sigma_xy == ln det Sigma_x + ln det Sigma (both branches, via the inverse-pair rule), layout Rc(x)Rx, and Sigma_xy*Lambda_xy == I by block multiplication."),
 "C08": ("proof", "affine_marginal_transformation == N(M mu + b, Sigma + M Sigma_x M') for every class x batch configuration; equals the y-block of the joint transformation (embedding-head algebra)."),
 "C09": ("proof", "affine_conditional_transformation == information-form posterior (precision, gain, offset, log-det; Sigma is the inverse of exactly the returned precision by value number) for every class x batch configuration. Round-trip invertibility (Woodbury) is not decided."),
 "C10": ("proof", "set_y(y).evaluate_ln(x) == ln N(y; Mx+b, Sigma) incl. normaliser with dim(Sigma)=Dy, contexts R=1/N and R=N, all linear classes; returned factor is a batch of N (field leading sizes, product()). Known finding F1 (Dx for Dy) is reported as KNOWN-FINDING."),
 "C13": ("proof", "entropy and KL equal Wick-generated expectations of log-densities (R/R, R/1, 1/R); conditional entropy and mutual information of every conditional class x batch configuration equal the closed forms (sign included). Non-negativity follows from the closed forms (not separately decided)."),
 "C04": ("proof", "Representation invariant (Sigma*Lambda=I, ln_det_Sigma=-ln_det_Lambda=LnDet, mu=Sigma nu, lnZ=Gaussian normaliser; conditionals: Sigma*Lambda=I, ln det) proved for the result of every public operation in the API table (~550 operation x class x context entries) assuming it for the operands: induction over operation histories of any length. Operands: only empty cache fields may be written, with invariant-consistent values (query purity). Sherman-Morrison by clearing denominators (rule 8), determinant lemma and the block-determinant theorem as axioms. Heteroscedastic Woodbury inverse is unclaimed."),
 "C11": ("other", "PARTIAL: for every linear conditional class and a generic Gaussian prior, the posterior after one observation has the same normal form (mean, precision; covariance as the inverse of that precision) through (a) conditional transformation + condition_on_x, (b) joint transformation + coordinate conditioning, (c) prior * set_y(y) normalised. With C04 (every route returns an invariant density) this is the induction step for any number / order of observations; order independence of the product route is commutativity of natural-parameter addition (C01). NOT decided: the evidence clause (Woodbury; false today for Dx != Dy because of known finding F1) and the Kalman-filter clause."),
 "C12": ("proof", "Batch parametricity: for every public operation x class x batch context, every tensor in the result's normal form that carries an operand's component index carries exactly the result's component index in the documented position (never summed / pinned) - parametric functions commute with slicing for every index array; well-formed batches; slice()/update() field exhaustiveness. jnp.take semantics for repeated/negative indices is library contract (trusted). Known findings F9 (slice inherited by approximate / NN-control classes)."),
 "C14": ("proof", "integrate('log u(x)') for every factor kind x batch, integrate_log_conditional(q) and integrate_log_conditional_y(p_x)(y) (callable and evaluated) of the linear / diagonal / identity-mean conditionals equal Wick-generated expectations for an arbitrary Gaussian q. NN-control by delegation (C15). RBF / squared-exponential feature models are not decided."),
 "C15": ("proof", "Sibling agreement by specialisation: rank-one / linear / constant / low-rank factor products vs the general ConjugateFactor with the same parameters; identity-mean classes vs the general class with M=I, b=0 for every overridden method x batch context; NN-controlled conditional vs the general class with M(u), b(u) = documented split of the network output; diagonal inverse only used in diagonal classes (its body is proved equal to the general inverse under the diagonal precondition in C02)."),
 "C16": ("other", "PARTIAL: moment ASSEMBLY of the approximate conditionals is proved (E[y], Cov[y], E[yx'] as polynomials in kernel / noise expectations computed by independent reference formulas: product-measure mass/mean, Sherman-Morrison for rank-one kernels, closed-form E exp(+-h)); joint / marginal / conditional built from exactly those moments; unit-height kernels; feature read-out; heteroscedastic conditional covariance and link wiring. NOT decided: step / rectified-linear links (vmap + truncated moments), and that each expectation equals the true integral of the non-linear model (quadrature-level)."),
 "C18": ("other", "PARTIAL: static protocol clauses only - jax.* names resolve in the installed jax (sources parsed, not imported); pytree flatten/unflatten closure over instance attributes; constructor idempotence; non-array fields not traced; to_dict/from_dict key agreement; no array value in Python control flow on any interpreted path of the API table (with a synthetic positive example); while_loop results behind stop_gradient. NOT decided: numerical agreement of jit/vmap/grad with eager execution."),
 "C20": ("other", "PARTIAL: dispatch table, support indicator (conjunction of both bounds, element-wise and broadcast), degree-one homogeneity of integrate('1'|'x'|'x**2') in the base mass, normalised variant == normalised base density * indicator / truncated mass and integrates to one (finite generic limits). NOT decided: cdf/pdf closed forms, x**k recursion (lax.scan), infinite limits, tail accuracy, additivity."),
 "C19": ("proof", "sample(key,n) == mu[None] + Chol(Sigma)[r,:,c] z[m,r,c] with z = jax.random.normal(key,(n,R,D)): contraction over the Cholesky column index, per-component pairing, output axes (n,R,D), exactly one PRNG head on the caller's key (deterministic in the key). Statistical moments are not decided."),
}
TECH = "static analysis: AST abstract interpretation in a shape x layout x Einstein-normal-form (algebraic value numbering) x effect domain; verdict = syntactic identity of normal forms / shape-layout rules"
NOTE = "Trusted: CPython ast; gtsa/nf.py rewrite rules 1-9 and layout discipline; gtsa/intrinsics.py transfer functions (documented NumPy/JAX semantics); reference generators (Wick, Normal log-density, Gaussian identities); contract table of cross-object size equalities; model of the dataclass wrapper. Float64 rounding and conditioning are outside the claim."
NA = {
 "C17": "inequalities and a limit (bound gap -> 0 quadratically) depending on a fixed-point iteration, plus a rank-dependent matrix identity; no shape-generic normal form decides them (DESIGN.md section 5).",
}
def main():
    here = os.path.dirname(os.path.abspath(__file__))
    checks, na = [], []
    for i in range(1, 21):
        pid = f"C{i:02d}"
        modp = os.path.join(here, "gtsa", "props", pid.lower() + ".py")
        if pid in NA:
            na.append(dict(property_id=pid, reason=NA[pid])); continue
        if not os.path.exists(modp) or pid not in TEXT:
            na.append(dict(property_id=pid, reason="check under construction (not yet claimed in this commit)")); continue
        cat, text = TEXT[pid]
        checks.append(dict(property_id=pid,
            quick_cmd=f"python3 check.py --property {pid} --tier quick",
            thorough_cmd=f"python3 check.py --property {pid} --tier thorough",
            evidence_file=f"/verif/evidence/{pid}.json",
            replay_cmd_template=f"python3 check.py --property {pid} --replay {{path}}",
            engine="gtsa",
            level_claimed=dict(category=cat, text=text, design_ref="DESIGN.md section 4 (" + pid + ")"),
            level_note=NOTE, technique=TECH))
    m = dict(version=1, setup_cmd="python3 -c \"import ast,sys; sys.exit(0 if sys.version_info >= (3,9) else 1)\"",
        hooks=dict(guard="GAUSSIAN_TOOLBOX_VERIF", enable="none: the analysis reads /repo sources; no hooks or instrumentation are compiled into the repository", baseline_off_cmd=BASE, source_commits=[], add_only=True),
        engines=[dict(name="gtsa", path="/verif/gtsa", serves_properties=[c["property_id"] for c in checks], kind_free_text="repository-specific static analyser: AST abstract interpreter over gaussian_toolbox with symbolic sizes, ordered index layouts, Einstein normal forms and an effect/write log; stdlib only")],
        checks=checks, not_applicable=na,
        notes="Exit codes: 0 all claimed obligations proved; 1 + VIOLATION line on a refutation not listed in known_findings.json; 2 + ANALYSIS-INCOMPLETE when a claimed obligation cannot be decided / an anchor vanished (never a silent pass). Repository fix commits: see known_findings.json (status=fixed).")
    json.dump(m, open(os.path.join(here, "MANIFEST.json"), "w"), indent=1)
    print("checks:", [c["property_id"] for c in checks], "n/a:", [x["property_id"] for x in na])
main()

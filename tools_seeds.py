#!/usr/bin/env python3
"""Regenerates section 13 of DESIGN.md (seeded changes vs checks) from seeded/*/meta.json."""
import json, glob, os, re
rows = []
for f in sorted(glob.glob("/verif/seeded/*/meta.json")):
    m = json.load(open(f))
    rows.append(m)
out = ["## 13. Seeded changes and which checks catch them", "",
       "Every kept change was written by a fresh sub-agent that saw only the text of one property and a scratch worktree of",
       "`/repo` (nothing from `/verif`), compiles, passes the existing test files that exercise the touched code, and comes with a",
       "demonstration (`demo.py`, independent ground truth) that exits 0 on the original and non-zero on the changed tree; each was",
       "re-confirmed in a scratch worktree (`seed_eval.sh`) before being stored under `/verif/seeded/<id>/` (patch.diff, demo.py,",
       "notes.md, meta.json). `seed_recheck.sh` re-applies every patch to `/repo`, runs every quick check and undoes it; the column",
       "*reported by* is its latest result (exit 1 with a VIOLATION line). Round 1 (`-a`): single-site slips; round 2 (`b`) and",
       "round 3 (`c`): the agents were told what earlier rounds produced and asked for a different kind (default paths, shared helpers,",
       "cooperating edits, stale state, index subtleties, masked layouts). Round 4 (`d`): one more per property, told the kinds of rounds 1-3.",
       "Round 5 (`H<n>-d<k>`): one agent per class family with all twenty property texts. Round 6 (`e`, adversarial): the agents were told that",
       "the checker is a symbolic exact-arithmetic analysis with lints and asked for defects such an analysis would plausibly overlook",
       "(float64 cancellation, import-order dtypes, integer truncation, hidden state, special values, tail accuracy). Round 7 (`L<n>-d<k>`): one area",
       "of the code per agent that earlier rounds had touched least (truncated measures, feature models, pytrees / dicts / sampling, factors and polynomial",
       "integrals, densities and diagonal conditionals); one of its 20 changes duplicated H3-d1 exactly and is not kept. Round 8 (`M<n>-d<k>`): ten agents, each given",
       "the text of ONE property (C05-C11, C13, C16, C19) and asked for two changes that need a multi-step sequence, an unusual input, a particular size combination,",
       "a particular constructor route or two cooperating sites (evaluated with `seed_eval_wt.sh`: private worktree, the twenty checks in parallel). Three of the ten agents",
       "independently wrote the same kind of shortcut (a contiguity test on the end points of an index list). The rows marked **none**",
       "are kept on purpose: they are the measured limit of the technique (section 12).", "",
       "| seed | target | change | needs to manifest | reported by | first missed? -> strengthening |", "|---|---|---|---|---|---|"]
for m in rows:
    hist = m.get("history", "")
    out.append("| {} | {} | {} | {} | {} | {} |".format(m["id"], m.get("property", "?"), m.get("change", "?").replace("|", "/"),
                                                   m.get("needs_to_manifest", "?").replace("|", "/"),
                                                   ", ".join(m.get("checks_that_report_a_violation", [])) or "**none**", hist or "-"))
n = len(rows); c = sum(1 for m in rows if m.get("checks_that_report_a_violation")); own = sum(1 for m in rows if m.get("property") in m.get("checks_that_report_a_violation", []))
out += ["", f"Totals: {n} kept changes, {c} reported by at least one check, {own} reported by the check of the property the agent targeted.", ""]
text = "\n".join(out)
p = "/verif/DESIGN.md"
s = open(p).read()
if "## 13. Seeded changes" in s:
    i = s.index("## 13. Seeded changes"); j = s.index("## Appendix A")
    s = s[:i] + text + "\n" + s[j:]
else:
    j = s.index("## Appendix A")
    s = s[:j] + text + "\n" + s[j:]
open(p, "w").write(s)
print(text[-300:])

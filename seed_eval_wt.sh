#!/bin/bash
# usage: seed_eval_wt.sh <seed-id> <source-dir-with patch.diff demo.py notes.md> "<test files>"
# Like seed_eval.sh, but everything (confirmation AND the twenty quick checks, in parallel) runs on a private scratch
# worktree of /repo HEAD (GTSA_REPO) with the live checker code, so several seeded changes can be evaluated at once
# and /repo is never touched.  Writes /verif/seeded/<id>/meta.json.
set -u
ID=$1; SRC=$2; TESTS=${3:-}
OUT=/verif/seeded/$ID
mkdir -p $OUT /tmp/w
cp $SRC/patch.diff $SRC/demo.py $OUT/ 2>/dev/null
[ -f $SRC/notes.md ] && cp $SRC/notes.md $OUT/notes.md
W=$(mktemp -d /tmp/w/sw_XXXX)
git -C /repo worktree add -q --detach $W/wt HEAD
cd $W/wt
PYTHONPATH=$W/wt /venv/bin/python -W ignore $OUT/demo.py > $OUT/demo_original.log 2>&1; RC0=$?
git apply $OUT/patch.diff; APPLY=$?
PYTHONPATH=$W/wt /venv/bin/python -W ignore $OUT/demo.py > $OUT/demo_changed.log 2>&1; RC1=$?
TESTRES="not run"
if [ -n "$TESTS" ]; then
  PYTHONPATH=$W/wt /venv/bin/python -m pytest -q -p no:cacheprovider $TESTS > $OUT/tests_changed.log 2>&1; TRC=$?
  TESTRES="exit $TRC: $(grep -E 'passed|failed' $OUT/tests_changed.log | tail -1)"
fi
cd /verif
PROPS="C01 C02 C03 C04 C05 C06 C07 C08 C09 C10 C11 C12 C13 C14 C15 C16 C17 C18 C19 C20"
for p in $PROPS; do
  ( GTSA_REPO=$W/wt GTSA_SELFTEST=1 GTSA_NO_EVIDENCE=1 python3 /verif/check.py --property $p --tier quick > $W/$p.log 2>&1; echo $? > $W/$p.rc ) &
done
wait
CAUGHT=""; DETAIL=""
for p in $PROPS; do
  rc=$(cat $W/$p.rc)
  if [ $rc -eq 1 ]; then CAUGHT="$CAUGHT $p"; DETAIL="$DETAIL
$p: $(grep -m1 '^REFUTED' $W/$p.log | cut -c1-400)"; fi
  if [ $rc -ne 0 ] && [ $rc -ne 1 ]; then DETAIL="$DETAIL
$p: exit $rc $(grep -m1 -E '^(ANALYSIS|UNDECIDED)' $W/$p.log | cut -c1-300)"; fi
done
git -C /repo worktree remove --force $W/wt; rm -rf $W
python3 - "$ID" "$RC0" "$RC1" "$APPLY" "$TESTRES" "$CAUGHT" "$DETAIL" <<'PY'
import json,sys,os
ID,rc0,rc1,ap,tests,caught,detail=sys.argv[1:8]
out=f"/verif/seeded/{ID}"
meta=dict(id=ID, patch_applies=(ap=="0"), demo_exit_original=int(rc0), demo_exit_changed=int(rc1), confirmed=(rc0=="0" and rc1!="0" and ap=="0"),
          existing_tests_on_changed_tree=tests, checks_that_report_a_violation=caught.split(), check_reports=detail.strip().splitlines(),
          ran=["demo.py on a scratch worktree of /repo HEAD (original) and with patch.diff applied", "relevant existing test files on the changed worktree",
               "patch.diff applied to a scratch worktree of /repo HEAD; GTSA_REPO=<worktree> python3 check.py --property <every claimed id> --tier quick; worktree removed"])
old={}
if os.path.exists(out+"/meta.json"): old=json.load(open(out+"/meta.json"))
if tests == "not run" and old.get("existing_tests_on_changed_tree", "not run") != "not run":
    meta["existing_tests_on_changed_tree"] = old["existing_tests_on_changed_tree"]     # re-evaluation of the checks only
old.update(meta)
json.dump(old,open(out+"/meta.json","w"),indent=1)
print(json.dumps(meta,indent=1)[:2500])
PY
